#!/bin/bash
# usage: eval_benign.sh <name under /verif/seeded> [checks...]
# Applies a behaviour-preserving change to /repo, runs the quick checks, undoes it. Every exit must be 0.
N=$1; shift
CHECKS=${@:-C01 C02 C03 C04 C05 C06 C07 C08 C09 C10 C11 C12 C13 C14 C15 C16 C17}
D=/verif/seeded/$N
[ -z "$(git -C /repo status --porcelain)" ] || { echo "repo not clean"; exit 2; }
git -C /repo apply $D/patch.diff || { echo "$N: PATCH DOES NOT APPLY"; exit 2; }
: > $D/results.txt
for c in $CHECKS; do
  out=$(cd /verif && VERIF_SEED=1 ./vf check $c --tier quick 2>&1); rc=$?
  echo "$N $c exit $rc $(echo "$out" | grep -c '^VIOLATION') violations; $(echo "$out" | grep -E 'TOOL-ERROR' | head -1 | cut -c1-200)" | tee -a $D/results.txt
  if [ $rc -ne 0 ]; then echo "$out" | grep -A1 -E "^VIOLATION|TOOL-ERROR" | head -12 > $D/alarm_$c.txt; fi
done
git -C /repo reset -q --hard HEAD
