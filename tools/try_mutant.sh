#!/bin/sh
# usage: try_mutant.sh <patch> <check ids...>   -- apply a seeded change to /repo, run checks, undo
P=$1; shift
cd /repo || exit 2
git diff --quiet || { echo "/repo not clean"; exit 2; }
git apply "$P" 2>/dev/null || git apply --3way "$P" 2>/dev/null || { echo "patch does not apply"; git reset -q --hard HEAD; exit 2; }
git reset -q
for c in "$@"; do
  echo "== $c with $(basename $(dirname $P))"
  (cd /verif && ./vf check $c --tier quick 2>&1 | grep -E "VIOLATION|KNOWN|TOOL-ERROR|quick:" | cut -c1-260 | head -6)
done
cd /repo && git reset -q --hard HEAD && git status --short | head -3
