#!/bin/bash
# usage: confirm_seed.sh <seed dir> <name>   (name = directory under /verif/seeded)
# Confirms a seeded change in a scratch worktree of /repo's HEAD: the suite still passes with it,
# the demonstration (a .nl program and/or a Rust test file) behaves differently with / without it.
S=$1; N=$2; W=/tmp/cw/$N
mkdir -p /tmp/cw /verif/seeded/$N
git -C /repo worktree add -q --detach $W HEAD || exit 2
cd $W
export CARGO_TARGET_DIR=$W/target
run_demos() { # $1 = suffix
  for d in $S/demo*.nl; do [ -f "$d" ] && ( ulimit -v 4000000; timeout 60 ./target/release/nederlang $d > /tmp/cw/$N.$(basename $d).$1 2>&1 ); done
  if [ -f $S/demo_test.rs ]; then cp $S/demo_test.rs tests/zz_demo_test.rs; (timeout 600 cargo test --release --offline --test zz_demo_test 2>&1 | grep -E "^test |test result" | sed 's/finished in.*//' > /tmp/cw/$N.demo_test.$1); rm -f tests/zz_demo_test.rs; fi
}
cargo build --release --offline -q 2>/dev/null
run_demos without
if ! (git apply $S/patch.diff 2>/dev/null || git apply --3way $S/patch.diff 2>/dev/null); then echo "$N: PATCH DOES NOT APPLY"; cd /; git -C /repo worktree remove --force $W; exit 1; fi
git reset -q
git diff > /verif/seeded/$N/patch.diff
T=$(cargo test --offline 2>&1 | grep "test result" | awk '{p+=$4; f+=$6} END {print p" passed "f" failed"}')
cargo build --release --offline -q 2>/dev/null
run_demos with
DIFF=0
for f in /tmp/cw/$N.*.with; do b=${f%.with}; cmp -s $f $b.without || DIFF=1; done
cp $S/demo* $S/expected* $S/notes.md /verif/seeded/$N/ 2>/dev/null
for f in /tmp/cw/$N.*.with /tmp/cw/$N.*.without; do [ -f "$f" ] && head -c 3000 $f > /verif/seeded/$N/$(basename $f | sed "s/^$N\.//").txt; done
echo "$N: tests with change: $T ; demonstration differs: $DIFF"
echo "{\"tests_with_change\":\"$T\",\"demo_differs\":$DIFF,\"base_commit\":\"$(git -C /repo log --format=%h -1)\"}" > /verif/seeded/$N/confirm.json
cd /; git -C /repo worktree remove --force $W; rm -f /tmp/cw/$N.*
