#!/bin/bash
# usage: confirm_seed.sh <seed dir> <name>   (name = directory under /verif/seeded)
# Confirms a seeded change in a scratch worktree of /repo's HEAD: the suite still passes with it,
# the demonstration's output differs with / without it. Stores everything under /verif/seeded/<name>.
S=$1; N=$2; W=/tmp/cw/$N
mkdir -p /tmp/cw /verif/seeded/$N
git -C /repo worktree add -q --detach $W HEAD || exit 2
cd $W
export CARGO_TARGET_DIR=$W/target
cargo build --release --offline -q 2>/dev/null
for d in $S/demo*.nl; do timeout 60 ./target/release/nederlang $d > /tmp/cw/$N.$(basename $d).without 2>&1; done
if ! (git apply --3way $S/patch.diff 2>/dev/null || git apply $S/patch.diff); then echo "$N: PATCH DOES NOT APPLY"; cd /; git -C /repo worktree remove --force $W; exit 1; fi
git reset -q
T=$(cargo test --offline 2>&1 | grep "test result" | awk '{p+=$4; f+=$6} END {print p" passed "f" failed"}')
cargo build --release --offline -q 2>/dev/null
DIFF=0
for d in $S/demo*.nl; do ( ulimit -v 4000000; timeout 60 ./target/release/nederlang $d > /tmp/cw/$N.$(basename $d).with 2>&1 ); cmp -s /tmp/cw/$N.$(basename $d).with /tmp/cw/$N.$(basename $d).without || DIFF=1; done
git diff > /verif/seeded/$N/patch.diff
cp $S/demo* $S/expected* $S/notes.md /verif/seeded/$N/ 2>/dev/null
for d in $S/demo*.nl; do b=$(basename $d); head -c 2000 /tmp/cw/$N.$b.without > /verif/seeded/$N/$b.output_without; head -c 2000 /tmp/cw/$N.$b.with > /verif/seeded/$N/$b.output_with; done
echo "$N: tests with change: $T ; demo output differs: $DIFF"
echo "{\"tests_with_change\":\"$T\",\"demo_differs\":$DIFF,\"base_commit\":\"$(git -C /repo log --format=%h -1)\"}" > /verif/seeded/$N/confirm.json
cd /; git -C /repo worktree remove --force $W; rm -f /tmp/cw/$N.*
