#!/usr/bin/env python3
"""Summarise /verif/seeded/*/meta.json into /verif/seeded/RESULTS.md"""
import os, json
S='/verif/seeded'
rows=[]
for n in sorted(os.listdir(S)):
    p=os.path.join(S,n,'meta.json')
    if not os.path.exists(p): continue
    m=json.load(open(p))
    cr=m.get('checks_run',{})
    rows.append((n,m.get('breaks_property'),m.get('summary','') or '', ', '.join(f"{c}:{'DETECTED' if r['exit']==1 else ('tool-error' if r['exit']==2 else 'missed')}" for c,r in cr.items()),
                 m.get('confirmation',{}).get('tests_with_change',''), m.get('confirmation',{}).get('demo_differs','')))
with open(os.path.join(S,'RESULTS.md'),'w') as f:
    f.write('# Seeded changes and which checks detect them\n\n')
    f.write('Each change was produced by a sub-agent that saw only the property text and a scratch worktree, then confirmed in a scratch worktree of /repo HEAD (suite with the change; demonstration output with / without).\n\n')
    f.write('| name | breaks | what | quick checks run -> outcome | suite with change | demo differs |\n|---|---|---|---|---|---|\n')
    for r in rows: f.write('| '+' | '.join(str(x).replace('|','/').replace('\n',' ') for x in r)+' |\n')
print(open(os.path.join(S,'RESULTS.md')).read())
