# per-check manifest text for the checks added after C01/C02 (read by mkmanifest.py)
C = {}
NA = {}
C['C06'] = dict(
 tech="TLA+ exact arithmetic on limb sequences (NlBig) and the operator table of NlValues, checked by TLC against the real eval's answers: complete boundary-lattice cross product x 11 operators x 3 syntactic forms, and all operators on all pairs of exemplars of all seven types",
 text="Every pair of the integer boundary lattice (0, +-1, +-2, +-7, +-2^k, +-(2^k+-1), k<=60, both range ends) is evaluated by the real interpreter for all 11 operators in the three syntactic forms that select different instructions; TLC validates each answer against exact limb arithmetic (quotient/remainder verified from the observed pair, range errors required outside [-2^60, 2^60-1]). Other types and cross-type pairs are validated against NlValues.BinOp through the reference semantics.",
 ref="DESIGN.md 5 C06",
 note="Trusted: TLC, NlBig's limb arithmetic (self-checked by ASSUME Sanity on the boundary constants), the recorder. Float results that need rounding and non-finite floats are outside the exact domain and skipped (counted).")
C['C09'] = dict(
 tech="TLA+ lexical-resolution spec (NlStatic) + reference semantics (NlSem) checked by TLC against recorded runs of name-heavy programs; transformation laws (NlXform: renaming, unused shadowing declaration, undeclared name) checked by TLC on recorded observation pairs",
 text="Programs drawn over a small identifier pool (the same name reused across blocks, functions and nesting depths, same-scope re-declarations, stray identifiers) are run by the real interpreter and validated against NlStatic+NlSem; each is also paired with its image under consistent renaming, insertion of an unused shadowing declaration in an inner block, and replacement of one use by an undeclared name, and TLC checks the law Obs(T(p)) = Obs(p), resp. ReferenceError with no output.",
 ref="DESIGN.md 5 C09",
 note="Trusted: TLC, the recorder, the harness's tree transformations (xform.rs; their images are additionally validated against NlSem). Programs are sampled (seeded).")
C['C10'] = dict(
 tech="TLA+ transformation laws (NlXform: wrap-in-function, literal->variable, mirrored operands, prepended literals) checked by TLC on recorded observation pairs of the real eval; both programs of each pair additionally validated against NlSem",
 text="Closed generated programs are paired with their images under the four implementation-choice transformations; TLC checks Obs(T(p)) = Obs(p) on the two recorded runs of the real interpreter, with no reference interpreter involved in that verdict. The fused variable-op-constant instructions are selected or avoided by literal->variable and mirror; wrap moves globals to locals; prepend shifts and merges constant-pool entries.",
 ref="DESIGN.md 5 C10",
 note="Trusted: TLC, the recorder, xform.rs. Side conditions: wrapped programs define no functions; mirrored operands are one literal and one name. Programs are sampled (seeded).")
C['C11'] = dict(
 tech="TLA+ reference semantics (NlSem) for values/output of a completely enumerated control-flow template set and random nests; TLA+ trace specification NlFrames (LoopResidue, frame discipline) over dispatch events recorded from the real VM, including loops of 70 000+ iterations; NlBcSafe one-height-per-instruction on all paths",
 text="Every instance of the template set (nest shapes x slot fillers incl. stop/volgende/antwoord at every depth x iteration counts x statement/value use x top level/function) is run by the real interpreter and validated by TLC against NlSem; the recorded dispatch events are validated against NlFrames (every backward jump finds the stack height of its first visit; frame count/base pointer/ip evolve as specified), the compiled code is model-checked on all paths for height conflicts, and four loops far past 65 536 iterations are validated on their back edges.",
 ref="DESIGN.md 5 C11",
 note="Trusted: TLC, the recorder, the exported opcode table. The template set is enumerated completely; random nests are sampled (seeded).")
C['C12'] = dict(
 tech="TLA+ reference semantics (NlSem) for values/output of call templates and random call-heavy programs; TLA+ trace specification NlFrames checking every recorded Call/Return of the real VM (base pointer, locals padding, return address, restored base, stack cut to one result)",
 text="Call templates (0-4 parameters x 0-4 locals x 8 expression contexts; direct, mutual and double recursion to depth 200; empty bodies; functions stored, passed, returned) and random call-heavy programs are run by the real interpreter; results are validated against NlSem and the recorded dispatch events against the frame discipline of NlFrames, step by step with the specification's own frame stack.",
 ref="DESIGN.md 5 C12",
 note="Trusted: TLC, the recorder. Depth beyond the specification's MaxDepth/step budget is skipped (counted). The 16-bit stack-index limit is not driven to its end (would need 65 535 live slots; recorded in DESIGN.md 6).")
C['C03'] = dict(
 tech="TLA+ model of the collector (NlGC: set-level design and vector/bitmap algorithm in lock step, refinement as invariant) model-checked exhaustively by TLC; its behaviours replayed on the real collector (TV_GCReplay); heap/collector event traces of real evaluations validated against the trace specification NlHeapLedger",
 text="TLC checks all operation sequences (alloc, link, unroot, collect, untrace, drop, caller-free) over a small object universe: nothing reachable is ever released, nothing twice, the algorithm implements the design (and two realistic deviations are refuted on every run). Simulated behaviours of the model are executed on the real GC type and compared operation by operation; and the shadow-heap / collector event stream of allocating programs is validated event by event: every dereference hits a live box, every collection keeps everything reachable from the machine's own snapshot of its roots, the roots passed cover that snapshot.",
 ref="DESIGN.md 5 C03",
 note="Trusted: TLC, the hooks (shadow heap keyed by box address with quarantine; snapshot taken from the machine state). Known finding KF-C03-MARK (gc.rs mark index) is reported as KNOWN-FINDING; any other class is a violation.")
C['C04'] = dict(
 tech="as C03 (NlGC model, replay, NlHeapLedger) with the precision/emptiness invariants, plus fault enumeration: one ledger trace per abort point k = 0..L of each allocating program, validated by TLC",
 cat="model_checking",
 text="The model's invariants Precise (after a collection the collector manages exactly what is reachable) and Nothing (after drop and the caller's releases nothing is live) are checked exhaustively; on the real code the ledger of every run - and of every run cut short by an injected error after exactly k instructions, for every k - is audited by the trace specification after the harness has released the result graph: no box live, none released twice.",
 ref="DESIGN.md 5 C04",
 note="Known finding KF-C04-SWEEP (no object is ever released by the collector) is reported as KNOWN-FINDING for the classes it explains (kept-garbage at a collection, managed-by-a-dropped-collector at the end); double releases, boxes lost by nobody and any C03 class are violations.")
C['C13'] = dict(
 tech="TLA+ indexing rules (NlValues.IndexGet/IndexSet) and reference semantics (NlSem) checked by TLC against recorded runs of a completely enumerated index family and random sequence-heavy programs",
 text="Arrays of length 0-6 and strings of 0-6 characters from 1- to 4-byte code points are read and written at every index in -(len+2)..len+2, directly, through an alias, through a function parameter and through a nested alias, with every value type as index and as stored value; each run of the real interpreter (value, output showing all aliases, character-based length, error kind) is validated against the specification.",
 ref="DESIGN.md 5 C13",
 note="Trusted: TLC, the recorder. 'Leaves the sequence unchanged after a failed operation' is observable only in a retained session and is checked under C17's session legs.")
C['C14'] = dict(
 tech="TLA+ builtin table (NlValues.CallBuiltin, PrintText) checked by TLC against recorded runs of a completely enumerated builtin family; round-trip laws checked on the integer lattice and random finite floats",
 text="Every builtin is applied to every value shape with 0-3 arguments, in conversion chains, and print to every format of up to four pieces with 0-4 arguments; each run of the real interpreter is validated against the documented result (or the admissible error kinds). number -> text -> number is checked as a law on all lattice integers and on random finite floats of every magnitude.",
 ref="DESIGN.md 5 C14",
 note="Trusted: TLC, the recorder, rustc's float parsing/printing as ground truth inside the round-trip laws. Text -> float beyond plain exact decimals is DontKnow (U9).")
C['C07'] = dict(
 tech="TLA+ grammar spec (NlGrammar: precedence table, Unparse, tree families) - TLC enumerates the trees and prints tree + printed form; the real parser parses each form under several layouts; TLC checks the parsed tree against the printed tree (TV_Parse)",
 text="TLC enumerates every ordered pair of the 13 binary operators in both nestings, prefix/call/index/assignment against every operator, op-assignment and else-if shapes, and operator triples in all five shapes; each tree is printed by the specification with the parentheses the precedence table requires, rendered under layouts (all eleven white-space code points, comments, redundant parentheses, dropped optional semicolons, no separator where maximal munch allows), parsed by the real parser, and TLC checks that exactly the printed tree comes back. Random statement-level trees are added.",
 ref="DESIGN.md 5 C07",
 note="Trusted: TLC, the layout renderer (harness/src/parsefam.rs), the tree export hook. The printed form is parenthesised conservatively around prefix operators, assignments and block expressions (the parser lets them swallow what follows).")
C['C08'] = dict(
 tech="TLA+ lexer spec (NlLexer: functional maximal-munch lexer and escape Decode/Encode) checked by TLC against the real lexer's token stream and the real parser's decoded literals (TV_Lex); Decode(Encode(s)) = s checked exhaustively on short strings",
 text="For every input (complete enumeration of single tokens, token pairs x separator choices, illegal characters, all string contents up to length 4 and raw literal bodies up to length 3 over an escape alphabet; random sequences beyond) TLC runs the specification's lexer on the recorded characters and compares kind, spelling and end position of every token with the real lexer's, requires that a legal text is read to its end and that an illegal one is rejected (nothing silently dropped), and that every string literal in the parser's tree equals Decode of its raw spelling.",
 ref="DESIGN.md 5 C08",
 note="Trusted: TLC, the recorder (Unicode classes of non-ASCII code points from Rust's char predicates; Debug rendering of tokens).")
C['C05'] = dict(
 tech="TLA+ outcome alphabet (NlTotal) - the specification pipeline has no action producing a panic, signal, hang or contract fault - checked by TLC on every recorded outcome of an isolated worker and of the real binary; budget-limited runs decided by the reference semantics (TV_Sem rule 'diverges')",
 text="A directed boundary corpus, token edits and truncations of generated programs, random token sequences and Unicode noise are evaluated in an isolated worker under wall-clock, memory and instruction limits (and a sample through the real binary in file mode and on the prompt's stdin); TLC validates every recorded outcome against the alphabet Value | Err(one of five kinds) | Budget, and a budget-limited run only if the reference semantics on the same tree is itself still running.",
 ref="DESIGN.md 5 C05",
 note="Trusted: TLC, the isolated worker (harness/src/pool.rs). Known findings KF-C05-LIMITS, KF-C05-NATIVE-STACK, KF-C05-CYCLE-DISPLAY are matched by panic site / signal and input class; any other crash, hang or undocumented error kind is a violation.")
C['C15'] = dict(
 tech="TLA+ encoding laws (NlEnc) checked exhaustively by TLC at word widths 8 and 11 and symbolically by Apalache at width 64 (NlEncApa: all 2^61 integers, all 2^48 function descriptors); bound to the real Object constructors/accessors by TLC validation of recorded raw words (TV_Enc, 64-bit words as limb numbers)",
 text="Round trip, tag correctness, injectivity across kinds and agreement of the signed word order with the integer order are established for the real width by Apalache's SMT encoding (and exhaustively for small widths by TLC; the pre-fix unsigned ordering is refuted on every run). The real constructors and accessors are then driven over the integer lattice, the complete cross product of a boundary set of function descriptors, random float bit patterns, random UTF-8 and nested arrays, and every recorded raw word / decoded payload / tag / alignment is validated against the scheme; `==` is validated on the complete cross product of a 200-value sample.",
 ref="DESIGN.md 5 C15",
 note="Trusted: TLC, Apalache 0.58 + Z3, NlBig limb arithmetic, the hook Object::raw_bits. Array equality is outside the property (scalars, text, functions).")
C['C17'] = dict(
 tech="the session law decided by the TLA+ reference semantics on the concatenated program (each line of each recorded session of one retained Compiler+VM pair validated by TLC as the last line of the program made of everything completed before it); TLA+ trace specification NlSession (set of possible persistent states) for lines cut short after k instructions, every k",
 text="All 1 884 sessions of up to three lines over a 12-line alphabet and random sessions of up to 12 lines (declarations, assignments, loops, functions used inside their line, heap-valued globals; lines that fail to parse, fail to compile at every statement position, fail at run time after a prefix of their statements) are executed on one retained (Compiler, VM) pair; TLC validates each line's observation against NlSem on the concatenation. Sessions whose increment line is cut short by an injected error after k instructions, for every k, are validated against NlSession: later lines must show a state that some prefix of the line's assignments produces, rejected lines leave no trace.",
 ref="DESIGN.md 5 C17",
 note="Trusted: TLC, the recorder, the harness's construction of the concatenated program (a session whose line fails where no failure was planned is validated up to and including that line only).")
C['C16'] = dict(
 tech="TLA+ history specification NlPure (a call can only finish with the fresh-process baseline of its program) checked by TLC on recorded histories: random order with repetitions in one process, 16 concurrent threads with seeded per-thread orders, and a release build",
 text="Batches of generated programs are evaluated once each in a process that has evaluated nothing else (baseline), then many times in random order in one process, concurrently from 16 threads, and by an interpreter built with optimisation and without overflow checks or debug assertions; TLC validates every finished call of every history against the specification's only action, Finish(obs = Baseline[p]), and the per-thread event order.",
 ref="DESIGN.md 5 C16",
 note="Trusted: TLC, the recorder. Thread schedules are sampled, not enumerated (stated in the evidence). Thread ownership of heap boxes is not recorded by the hooks; cross-thread interference would show as an impure observation or a shadow-heap fault.")
