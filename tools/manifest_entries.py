# per-check manifest text for the checks added after C01/C02 (read by mkmanifest.py)
C = {}
NA = {}
C['C06'] = dict(
 tech="TLA+ exact arithmetic on limb sequences (NlBig) and the operator table of NlValues, checked by TLC against the real eval's answers: complete boundary-lattice cross product x 11 operators x 3 syntactic forms, and all operators on all pairs of exemplars of all seven types",
 text="Every pair of the integer boundary lattice (0, +-1, +-2, +-7, +-2^k, +-(2^k+-1), k<=60, both range ends) is evaluated by the real interpreter for all 11 operators in the three syntactic forms that select different instructions; TLC validates each answer against exact limb arithmetic (quotient/remainder verified from the observed pair, range errors required outside [-2^60, 2^60-1]). Other types and cross-type pairs are validated against NlValues.BinOp through the reference semantics.",
 ref="DESIGN.md 5 C06",
 note="Trusted: TLC, NlBig's limb arithmetic (self-checked by ASSUME Sanity on the boundary constants), the recorder. Float results that need rounding and non-finite floats are outside the exact domain and skipped (counted).")
C['C09'] = dict(
 tech="TLA+ lexical-resolution spec (NlStatic) + reference semantics (NlSem) checked by TLC against recorded runs of name-heavy programs; transformation laws (NlXform: renaming, unused shadowing declaration, undeclared name) checked by TLC on recorded observation pairs",
 text="Programs drawn over a small identifier pool (the same name reused across blocks, functions and nesting depths, same-scope re-declarations, stray identifiers) are run by the real interpreter and validated against NlStatic+NlSem; each is also paired with its image under consistent renaming, insertion of an unused shadowing declaration in an inner block, and replacement of one use by an undeclared name, and TLC checks the law Obs(T(p)) = Obs(p), resp. ReferenceError with no output.",
 ref="DESIGN.md 5 C09",
 note="Trusted: TLC, the recorder, the harness's tree transformations (xform.rs; their images are additionally validated against NlSem). Programs are sampled (seeded).")
C['C10'] = dict(
 tech="TLA+ transformation laws (NlXform: wrap-in-function, literal->variable, mirrored operands, prepended literals) checked by TLC on recorded observation pairs of the real eval; both programs of each pair additionally validated against NlSem",
 text="Closed generated programs are paired with their images under the four implementation-choice transformations; TLC checks Obs(T(p)) = Obs(p) on the two recorded runs of the real interpreter, with no reference interpreter involved in that verdict. The fused variable-op-constant instructions are selected or avoided by literal->variable and mirror; wrap moves globals to locals; prepend shifts and merges constant-pool entries.",
 ref="DESIGN.md 5 C10",
 note="Trusted: TLC, the recorder, xform.rs. Side conditions: wrapped programs define no functions; mirrored operands are one literal and one name. Programs are sampled (seeded).")
