# per-check manifest text for the checks added after C01/C02 (read by mkmanifest.py)
C = {}
NA = {}
C['C06'] = dict(
 tech="TLA+ exact arithmetic on limb sequences (NlBig) and the operator table of NlValues, checked by TLC against the real eval's answers: complete boundary-lattice cross product x 11 operators x 3 syntactic forms, and all operators on all pairs of exemplars of all seven types",
 text="Every pair of the integer boundary lattice (0, +-1, +-2, +-7, +-2^k, +-(2^k+-1), k<=60, both range ends) is evaluated by the real interpreter for all 11 operators in the three syntactic forms that select different instructions; TLC validates each answer against exact limb arithmetic (quotient/remainder verified from the observed pair, range errors required outside [-2^60, 2^60-1]). Other types and cross-type pairs are validated against NlValues.BinOp through the reference semantics.",
 ref="DESIGN.md 5 C06",
 note="Trusted: TLC, NlBig's limb arithmetic (self-checked by ASSUME Sanity on the boundary constants), the recorder. Float results that need rounding and non-finite floats are outside the exact domain and skipped (counted).")
