#!/bin/sh
# run every check with several seeds on the unchanged tree: none may report a violation or a tool error
for s in "$@"; do for c in C01 C02 C03 C04 C05 C06 C07 C08 C09 C10 C11 C12 C13 C14 C15 C16 C17; do
  r=$(cd /verif && ./vf check $c --seed $s 2>&1 | grep -E "VIOLATION|TOOL|quick:" | head -3 | cut -c1-300 | tr '\n' ' ')
  echo "seed=$s $r"
done; done
