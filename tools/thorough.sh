#!/bin/sh
# run every check in the thorough tier on the unchanged tree, with timing
for c in "$@"; do
  t0=$(date +%s)
  r=$(cd /verif && VERIF_SEED=1 ./vf check $c --tier thorough 2>&1 | grep -E "VIOLATION|TOOL|thorough:|Traceback|Error" | head -4 | cut -c1-400 | tr '\n' ' ')
  echo "$c $(( $(date +%s) - t0 ))s $r"
done
