#!/usr/bin/env python3
"""Run the registered checks against every seeded change under /verif/seeded and record which ones detect it.
usage: eval_seeds.py [name-prefix]     (writes /verif/seeded/<name>/meta.json and /verif/seeded/RESULTS.md)"""
import os, sys, json, subprocess, re, time
SEED='/verif/seeded'
PLAN={  # seeded change -> checks to try (own property first)
 'r1-C01':['C01','C11'], 'r1-C02':['C02','C09','C01'], 'r1-C06':['C06','C10'], 'r1-C09':['C09'], 'r1-C10':['C10','C06'],
 'r1-C11':['C11','C02'], 'r1-C12':['C12','C02'], 'r1-C13':['C13'], 'r1-C14':['C14','C01'],
 'r2-C03':['C03','C17'], 'r2-C04':['C04','C03','C17'], 'r2-C05':['C05','C07'], 'r2-C07':['C07'], 'r2-C08':['C08'],
 'r2-C15':['C15'], 'r2-C16':['C16'], 'r2-C17':['C17'], 'r2-X1':['C12','C01'], 'r2-X2':['C13'], 'r2-X3':['C11','C01'],
 'r3-A1':['C06','C10'], 'r3-A2':['C11','C01'], 'r3-A3':['C14'], 'r3-A4':['C09','C01'], 'r3-B1':['C02','C11'], 'r3-B2':['C10','C06'],
 'r3-B3':['C12'], 'r3-B4':['C13'], 'r3-C1':['C07'], 'r3-C2':['C08'], 'r3-C3':['C17'], 'r3-C4':['C16','C06'],
 'r4-A1':['C01','C06','C10'], 'r4-A2':['C05','C08'], 'r4-A3':['C15','C06'], 'r4-A4':['C14'],
 'r4-B1':['C03','C13'], 'r4-B2':['C04','C03'], 'r4-B3':['C13'], 'r4-B4':['C17'],
 'r4-C1':['C07'], 'r4-C2':['C11','C01'], 'r4-C3':['C12','C01'], 'r4-C4':['C09','C01'],
 'r5-A1':['C02','C12'], 'r5-A2':['C02','C12'], 'r5-A3':['C05','C08'], 'r5-A4':['C16','C17'],
 'r5-B1':['C06'], 'r5-B2':['C14'], 'r5-B3':['C08'], 'r5-B4':['C11','C01'],
 'r5-C1':['C13'], 'r5-C2':['C10','C06'], 'r5-C3':['C12','C01'], 'r5-C4':['C07'],
 'r6-A1':['C03','C13'], 'r6-A2':['C04','C03','C14'], 'r6-A3':['C13'], 'r6-A4':['C17','C03'],
 'r6-B1':['C09'], 'r6-B2':['C14'], 'r6-B3':['C15','C06'], 'r6-B4':['C06'],
 'r6-C1':['C01','C10'], 'r6-C2':['C07'], 'r6-C3':['C06','C08'], 'r6-C4':['C16'],
 'r7-A1':['C10','C01'], 'r7-A2':['C02','C11'], 'r7-A3':['C15','C13'], 'r7-A4':['C05','C14'],
 'r7-B1':['C12','C01'], 'r7-B2':['C11'], 'r7-B3':['C14'], 'r7-B4':['C17'],
 'r8-A1':['C01','C10','C06'], 'r8-A2':['C03'], 'r8-A3':['C04'], 'r8-A4':['C09','C02'],
 'r8-B1':['C05','C08'], 'r8-B2':['C06','C16'], 'r8-B3':['C08'], 'r8-B4':['C10','C06'],
 'r8-C1':['C15','C06'], 'r8-C2':['C16'], 'r8-C3':['C02','C05'], 'r8-C4':['C17'],
 'r9-D1':['C06'], 'r9-D2':['C12','C01'], 'r9-D3':['C14'], 'r9-E1':['C11'], 'r9-E2':['C13'], 'r9-E3':['C07','C08'],
}
R9={'D1':'C06','D2':'C12','D3':'C14','E1':'C11','E2':'C13','E3':'C07'}
R8={'A1':'C01','A2':'C03','A3':'C04','A4':'C09','B1':'C05','B2':'C06','B3':'C08','B4':'C10','C1':'C15','C2':'C16','C3':'C02','C4':'C17'}
R7={'A1':'C10','A2':'C02','A3':'C15','A4':'C05','B1':'C12','B2':'C11','B3':'C14','B4':'C17'}
R6={'A1':'C03','A2':'C04','A3':'C13','A4':'C17','B1':'C09','B2':'C14','B3':'C15','B4':'C06','C1':'C01','C2':'C07','C3':'C08','C4':'C16'}
R5={'A1':'C02','A2':'C02','A3':'C05','A4':'C16','B1':'C06','B2':'C14','B3':'C08','B4':'C11','C1':'C13','C2':'C10','C3':'C12','C4':'C07'}
R4={'A1':'C01','A2':'C05','A3':'C15','A4':'C14','B1':'C03','B2':'C04','B3':'C13','B4':'C17','C1':'C07','C2':'C11','C3':'C12','C4':'C09'}
R3={'A1':'C06','A2':'C11','A3':'C14','A4':'C09','B1':'C02','B2':'C10','B3':'C12','B4':'C13','C1':'C07','C2':'C08','C3':'C17','C4':'C16'}
def sh(cmd, **k): return subprocess.run(cmd, shell=True, capture_output=True, text=True, **k)
def clean():
    sh('git -C /repo reset -q --hard HEAD')
# the checks rewrite /verif/evidence on every run: what they write while a seeded change is applied must not stay there
import shutil, atexit
_EV='/verif/evidence'; _BAK='/verif/out/evidence_before_seed_evaluation'
shutil.rmtree(_BAK, ignore_errors=True); os.makedirs('/verif/out', exist_ok=True); shutil.copytree(_EV, _BAK)
def _restore():
    shutil.rmtree(_EV, ignore_errors=True); shutil.copytree(_BAK, _EV)
atexit.register(_restore)
prefix=sys.argv[1] if len(sys.argv)>1 else ''
names=sorted(d for d in os.listdir(SEED) if os.path.isdir(os.path.join(SEED,d)) and d.startswith(prefix))
for name in names:
    d=os.path.join(SEED,name)
    prop=re.sub(r'^r\d+-','',name)
    prop={'X1':'C12','X2':'C13','X3':'C11'}.get(prop,prop)
    if name.startswith('r3-'): prop=R3.get(prop,prop)
    if name.startswith('r4-'): prop=R4.get(prop,prop)
    if name.startswith('r5-'): prop=R5.get(prop,prop)
    if name.startswith('r6-'): prop=R6.get(prop,prop)
    if name.startswith('r7-'): prop=R7.get(prop,prop)
    if name.startswith('r8-'): prop=R8.get(prop,prop)
    if name.startswith('r9-'): prop=R9.get(prop,prop)
    checks=PLAN.get(name,[prop] if re.match(r'^C\d\d$',prop) else [])
    meta_path=os.path.join(d,'meta.json')
    meta=json.load(open(meta_path)) if os.path.exists(meta_path) else {}
    if sh('git -C /repo status --porcelain').stdout.strip(): print('repo not clean'); sys.exit(2)
    a=sh(f'git -C /repo apply {d}/patch.diff')
    if a.returncode!=0:
        a=sh(f'git -C /repo apply --3way {d}/patch.diff'); sh('git -C /repo reset -q')
    if a.returncode!=0:
        print(name,'PATCH DOES NOT APPLY'); clean(); meta['applies']=False; json.dump(meta,open(meta_path,'w'),indent=1); continue
    res={}
    for c in checks:
        t0=time.time()
        p=sh(f'cd /verif && ./vf check {c} --tier quick')
        nv=len(re.findall(r'^VIOLATION property=',p.stdout,re.M))
        res[c]={'exit':p.returncode,'violations_listed':nv,'wall_s':round(time.time()-t0),'first':(re.findall(r'^  (\{.*)$',p.stdout,re.M) or [''])[0][:300]}
        print(name,c,'exit',p.returncode,'violations',nv,flush=True)
    clean()
    conf=json.load(open(os.path.join(d,'confirm.json'))) if os.path.exists(os.path.join(d,'confirm.json')) else {}
    notes=open(os.path.join(d,'notes.md')).read() if os.path.exists(os.path.join(d,'notes.md')) else ''
    meta.update({'breaks_property':meta.get('breaks_property',prop),'applies':True,'confirmation':conf,
                 'needs_to_manifest':meta.get('needs_to_manifest') or notes[:1500],
                 'checks_run':res,'detected_by':[c for c,r in res.items() if r['exit']==1],
                 'ran':[f'./vf check {c} --tier quick (with the patch applied to /repo, then undone)' for c in checks]})
    json.dump(meta,open(meta_path,'w'),indent=1)
