#!/usr/bin/env python3
"""Regenerates /verif/MANIFEST.json from the table below (kept next to the checks it describes)."""
import json, subprocess
props=[json.loads(l) for l in open('/verif/properties.jsonl')]
HOOKS=subprocess.run(['git','-C','/repo','log','--format=%h %s'],capture_output=True,text=True).stdout.splitlines()
hook_commits=[l.split()[0] for l in HOOKS if l.split(' ',1)[1].startswith('verif hooks')][::-1]
C={}
C['C01']=dict(tech="TLA+ reference semantics (NlSem) checked by TLC against recorded executions of the real eval (trace validation, one deterministic behaviour per program); translation validation of the real compiler's bytecode on the TLA+ opcode-level machine (NlVM); the design-level refinement NlVM o NlCompiler = NlSem model-checked by TLC on the specifications alone, with deliberate deviations of the translation scheme refuted on every run",
 text="Every generated or corpus program is run by the real interpreter; the recorded outcome (value, printed text, error kind, output before the error) is validated by TLC against the definitional small-step semantics NlSem, state by state; corrupted observations are shown to be rejected on every run. The real compiler's code for each tree is run on the specified machine NlVM (same outcome required) and compared with the specified compiler NlCompiler (conformance, reported as evidence). Independently of the implementation, TLC checks on every tree of the translation leg, the fused-shape family and the control-flow templates that the specified machine running the specified compiler's code yields what NlSem says and that this code passes the bytecode verifier NlBcSafe.",
 ref="DESIGN.md 5 C01, 4",
 note="Trusted: TLC, the Json module, the recorder's projection of values (harness/src/proj.rs), rustc's f64/char primitives. Bounded: programs are sampled (seeded) plus the repository corpus; integers beyond 2^29 and inexact floats are skipped as DontKnow and counted.")
C['C02']=dict(tech="TLA+ bytecode-contract verifier (NlBcSafe): TLC explores the abstract machine (region, ip, height) over the real compiler's output, all paths; effect table bound to the real VM by recorded dispatch events; guarded probes at the unsafe sites",
 text="For every accepted input the real compiler's bytecode is model-checked exhaustively (both branches of every conditional jump) against the machine's unchecked contracts: decodability, jump targets on boundaries of the same region, no fall-through, operands present above the locals, constant/local/builtin numbers in range, one height per instruction. The stack effect assumed per opcode is validated against the real machine's recorded dispatches, and probes at pop/fetch/operand reads/Call/CallBuiltin report any out-of-contract access on executed paths. Inputs are generated programs, token edits, random token sequences and a hand-written list of placement corners (stop / volgende / antwoord in every unusual place: a function literal in a loop in a function, loop conditions, operands, arguments, nested blocks); the call template set (arities 0-4, 16, 254, 255; bodies ending in every way a body can end) additionally goes through the frame discipline of NlFrames.",
 ref="DESIGN.md 5 C02",
 note="Trusted: TLC, the exported opcode table, the recorder. Exhaustive per program; programs are sampled (generated, token edits, random token sequences that compile).")
def entry(pid):
    c=C[pid]
    return {"property_id":pid,"quick_cmd":f"./vf check {pid} --tier quick","thorough_cmd":f"./vf check {pid} --tier thorough",
      "evidence_file":f"evidence/{pid}.json","replay_cmd_template":"./vf replay {path}","engine":"tlc","technique":c['tech'],
      "level_claimed":{"category":c.get('cat',"model_checking"),"text":c['text'],"design_ref":c['ref']},"level_note":c['note']}
import importlib.util, os
extra=os.path.join(os.path.dirname(__file__),'manifest_entries.py')
if os.path.exists(extra):
    spec=importlib.util.spec_from_file_location('me',extra); me=importlib.util.module_from_spec(spec); spec.loader.exec_module(me); C.update(me.C)
NA=getattr(me,'NA',{}) if os.path.exists(extra) else {}
m={"version":1,"setup_cmd":"./vf setup",
 "hooks":{"guard":"verif","enable":"cargo feature 'verif' of the nederlang crate; /verif/harness depends on /repo with features=[\"verif\"] and is rebuilt by every check","baseline_off_cmd":"cd /repo && cargo test --workspace --no-fail-fast --offline","source_commits":hook_commits,"add_only":True},
 "engines":[{"name":"tlc","path":"/usr/local/bin/tlc","serves_properties":sorted(C.keys()),"kind_free_text":"TLC 1.8 explicit-state model checker over the TLA+ modules in /verif/spec"},
            {"name":"nlh","path":"/verif/harness","serves_properties":sorted(C.keys()),"kind_free_text":"Rust conformance harness: generators, isolated worker, recorders (path dependency on /repo with feature verif)"}],
 "checks":[entry(p['id']) for p in props if p['id'] in C],
 "not_applicable":[{"property_id":p['id'],"reason":NA.get(p['id'],"check under construction in this round (DESIGN.md section 5 gives the plan); will be claimed when built")} for p in props if p['id'] not in C],
 "notes":"Model-based verification with explicit TLA+ specifications (spec/), TLC, and conformance checks in both directions; see DESIGN.md."}
json.dump(m,open('/verif/MANIFEST.json','w'),indent=1)
print(len(m['checks']),'checks',len(m['not_applicable']),'n/a')
