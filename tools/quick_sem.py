#!/usr/bin/env python3
"""dev helper: generate N records of a family, validate with TV_Sem, summarise"""
import json,re,collections,subprocess,sys,os
fam=sys.argv[1]; seed=sys.argv[2]; n=sys.argv[3]
d='/verif/out/t'; os.makedirs(d,exist_ok=True)
subprocess.run(['cargo','build','-q'],cwd='/verif/harness',check=True,stderr=subprocess.DEVNULL)
subprocess.run(['/verif/harness/target/debug/nlh','gen-sem','--family',fam,'--seed',seed,'--n',n,'--out',d+'/r.ndjson'],check=True)
env=dict(os.environ,RECS=d+'/r.ndjson',JAVA_TOOL_OPTIONS='-Xss1g')
p=subprocess.run(['tlc','-workers','1','-metadir',d+'/meta','-cleanup','-noGenerateSpecTE','-config','TV_Sem.cfg','TV_Sem.tla'],cwd='/verif/spec',env=env,capture_output=True,text=True)
open(d+'/log.txt','w').write(p.stdout)
c=collections.Counter(); mism=[]
for l in p.stdout.splitlines():
    if l.startswith('<<"VERDICT"'):
        s=re.match(r'<<"VERDICT", "(.*)">>$', l.strip()).group(1).replace('\\"','"').replace('\\\\','\\')
        v=json.loads(s); c[(v['class'],v['rule'])]+=1
        if v['class']=='mismatch': mism.append(v)
    elif 'rror' in l or 'states generated' in l: print(l[:300])
print(sorted(c.items()))
src={json.loads(l)['id']:json.loads(l)['text'] for l in open(d+'/r.ndjson.src')}
recs={json.loads(l)['id']:json.loads(l) for l in open(d+'/r.ndjson')}
k=int(sys.argv[4]) if len(sys.argv)>4 else 5
for v in mism[:k]:
    print('=====',v['id'],v['rule'],'spec=',json.dumps(v['spec'])[:200], 'specout=', ''.join(map(chr,v['out']))[-80:].replace('\n','|'))
    o=recs[v['id']]['obs']; o2={kk:o[kk] for kk in o if kk not in('out',)}
    print('impl=',json.dumps(o2)[:300],'implout=',''.join(map(chr,o['out']))[-80:].replace('\n','|'),'parse_same',recs[v['id']]['parse_same'])
    print(src[v['id']][:int(sys.argv[5]) if len(sys.argv)>5 else 600])
