"""Shared machinery of vf: building, running the harness and TLC, verdicts, evidence."""
import os, sys, json, re, subprocess, time, shutil, glob, concurrent.futures, random

ROOT = os.path.dirname(os.path.dirname(os.path.abspath(__file__)))
SPEC = os.path.join(ROOT, "spec")
OUT = os.path.join(ROOT, "out")
HARNESS = os.path.join(ROOT, "harness")
NLH = os.path.join(HARNESS, "target", "debug", "nlh")
NLH_REL = os.path.join(HARNESS, "target", "release", "nlh")
EVID = os.path.join(ROOT, "evidence")
NCPU = min(16, os.cpu_count() or 4)


TLA_CP = "/opt/veriftools/tla/tla2tools.jar:/opt/veriftools/tla/CommunityModules-deps.jar"


class ToolError(Exception):
    pass


def log(*a):
    print(*a, flush=True)


def cargo_env():
    e = dict(os.environ)
    e["CARGO_NET_OFFLINE"] = "true"
    return e


def build(release=False):
    """(Re)build the harness against /repo's current working tree, hooks on."""
    t0 = time.time()
    cmd = ["cargo", "build", "-q", "--offline"] + (["--release"] if release else [])
    p = subprocess.run(cmd, cwd=HARNESS, env=cargo_env(), capture_output=True, text=True)
    if p.returncode != 0:
        # A tree that does not compile with the hooks on is a tool error, not a finding
        raise ToolError("harness build failed:\n" + p.stderr[-3000:])
    return time.time() - t0


NLBIN_DIR = os.path.join(HARNESS, "target", "nlbin")
NLBIN = os.path.join(NLBIN_DIR, "debug", "nederlang")


def build_binary():
    """The real `nederlang` executable (no hooks), built from /repo's working tree."""
    e = cargo_env()
    e["CARGO_TARGET_DIR"] = NLBIN_DIR
    p = subprocess.run(["cargo", "build", "-q", "--offline", "--bin", "nederlang"], cwd="/repo", env=e,
                       capture_output=True, text=True)
    if p.returncode != 0:
        raise ToolError("building the nederlang binary failed:\n" + p.stderr[-2000:])
    return NLBIN


def modules():
    return sorted(glob.glob(os.path.join(SPEC, "*.tla")))


def setup():
    os.makedirs(OUT, exist_ok=True)
    os.makedirs(EVID, exist_ok=True)
    dt = build()
    log(f"harness built in {dt:.1f}s")
    bad = 0
    for m in modules():
        p = subprocess.run(["tla-sany", os.path.basename(m)], cwd=SPEC, capture_output=True, text=True)
        txt = p.stdout + p.stderr
        if p.returncode != 0 or "*** Errors" in txt or "Fatal" in txt or "Could not parse" in txt:
            log("SANY failed for", m)
            log(txt[-1500:])
            bad += 1
    if bad:
        raise ToolError(f"{bad} modules do not parse")
    log(f"{len(modules())} TLA+ modules parse")


def workdir(name):
    d = os.path.join(OUT, name)
    shutil.rmtree(d, ignore_errors=True)
    os.makedirs(d, exist_ok=True)
    return d


def run_nlh(args, timeout=1800, release=False):
    p = subprocess.run([NLH_REL if release else NLH] + [str(a) for a in args], capture_output=True, text=True, timeout=tscale(timeout))
    if p.returncode != 0:
        raise ToolError(f"nlh {' '.join(map(str,args))} failed: {p.stderr[-2000:]}")
    return p.stdout


TIER = "quick"
THOROUGH_CAP = 8


def nshards():
    """record files per leg: one per core in the quick tier; the thorough tier keeps the files the same size
    and makes more of them (they are run NCPU at a time)"""
    return NCPU if TIER == "quick" else NCPU * THOROUGH_CAP


def tscale(t):
    return t if TIER == "quick" else t * 4


def parallel(fn, items, workers=NCPU):
    with concurrent.futures.ThreadPoolExecutor(max_workers=workers) as ex:
        return list(ex.map(fn, items))


VERDICT_RE = re.compile(r'^<<"(VERDICT|VEC|NOTE)", "(.*)">>$')


def unquote(s):
    # TLC prints the JSON text as a TLA+ string: backslash-escaped quotes and backslashes
    out = []
    i = 0
    while i < len(s):
        c = s[i]
        if c == "\\" and i + 1 < len(s):
            n = s[i + 1]
            if n in '"\\':
                out.append(n)
                i += 2
                continue
            if n == "n":
                out.append("\n"); i += 2; continue
            if n == "t":
                out.append("\t"); i += 2; continue
        out.append(c)
        i += 1
    return "".join(out)


class TlcResult:
    def __init__(self):
        self.verdicts = []
        self.vecs = []
        self.notes = []
        self.generated = 0
        self.distinct = 0
        self.ok = False
        self.violated = None      # name of a violated TLC invariant / property, if any
        self.error = None
        self.coverage = {}
        self.raw = ""
        self.wall = 0.0


def run_tlc(spec, cfg, env=None, workdir_=None, workers=1, timeout=1500, xss="512m", xmx="3g",
            extra=None, simulate=None, coverage=False, deque=False):
    """Run TLC on spec/cfg (both relative to /verif/spec). Returns a TlcResult."""
    e = dict(os.environ)
    e.pop("JAVA_TOOL_OPTIONS", None)
    if env:
        e.update({k: str(v) for k, v in env.items()})
    meta = os.path.join(workdir_ or OUT, "meta_" + os.path.basename(spec) + "_" + str(os.getpid()) + "_" + str(random.randrange(1 << 30)))
    # TLC is started through java directly: -Xss must be on the command line to reach the MAIN thread, which
    # evaluates initial states and their invariants (JAVA_TOOL_OPTIONS only reaches threads created later)
    cmd = ["java", f"-Xss{xss}", f"-Xmx{xmx}", "-XX:+UseParallelGC", "-XX:ParallelGCThreads=2", "-XX:CICompilerCount=2"]
    if deque:
        cmd.append("-Dtlc2.tool.queue.IStateQueue=StateDeque")
    cmd += ["-cp", TLA_CP, "tlc2.TLC", "-workers", str(workers), "-metadir", meta, "-cleanup", "-noGenerateSpecTE",
            "-config", cfg]
    if coverage:
        cmd += ["-coverage", "1"]
    if simulate:
        cmd += ["-simulate", simulate]
    if extra:
        cmd += extra
    cmd.append(spec)
    t0 = time.time()
    r = TlcResult()
    try:
        p = subprocess.run(cmd, cwd=SPEC, env=e, capture_output=True, text=True, timeout=tscale(timeout))
    except subprocess.TimeoutExpired:
        shutil.rmtree(meta, ignore_errors=True)
        raise ToolError(f"TLC timed out after {timeout}s on {spec}")
    shutil.rmtree(meta, ignore_errors=True)
    r.wall = time.time() - t0
    out = p.stdout
    r.raw = out
    for l in out.splitlines():
        m = VERDICT_RE.match(l.strip())
        if m:
            try:
                v = json.loads(unquote(m.group(2)))
            except Exception as ex:
                raise ToolError(f"unparsable TLC output line: {l[:300]} ({ex})")
            {"VERDICT": r.verdicts, "VEC": r.vecs, "NOTE": r.notes}[m.group(1)].append(v)
            continue
        m2 = re.match(r"^(\d[\d,]*) states generated, (\d[\d,]*) distinct states found", l)
        if m2:
            r.generated = int(m2.group(1).replace(",", ""))
            r.distinct = int(m2.group(2).replace(",", ""))
        m3 = re.match(r"^Error: Invariant (\S+) is violated", l)
        if m3:
            r.violated = m3.group(1)
        m4 = re.match(r"^Error: Action property (\S+) is violated", l)
        if m4:
            r.violated = m4.group(1)
        if l.startswith("Error: Temporal properties were violated"):
            r.violated = "temporal"
        m5 = re.match(r"^<(\w+) line \d+, col \d+ to line \d+, col \d+ of module (\w+)>: (\d+):(\d+)", l)
        if m5:
            r.coverage[m5.group(2) + "." + m5.group(1)] = int(m5.group(4))
    if "Model checking completed. No error has been found." in out or \
       ("Finished in" in out and "Error:" not in out):
        r.ok = True
    elif r.violated is None:
        errs = [l for l in out.splitlines() if l.startswith("Error:")]
        r.error = "\n".join(errs[:6]) or out[-1500:]
    return r


def tlc_or_die(*a, **k):
    r = run_tlc(*a, **k)
    if r.error:
        raise ToolError(f"TLC error in {a[0]}: {r.error}\n{r.raw[-1500:]}")
    return r


def read_ndjson(path):
    with open(path) as f:
        return [json.loads(l) for l in f if l.strip()]


def write_ndjson(path, recs):
    with open(path, "w") as f:
        for r in recs:
            f.write(json.dumps(r, separators=(",", ":")) + "\n")


def text_of(cps):
    try:
        return "".join(chr(c) for c in cps)
    except Exception:
        return str(cps)


# ---------------------------------------------------------------------------
# Known findings
# ---------------------------------------------------------------------------
def known_findings():
    p = os.path.join(ROOT, "known_findings.json")
    if not os.path.exists(p):
        return []
    return json.load(open(p)).get("findings", [])


def match_known(prop, sig):
    """sig: dict describing a failing case (keys: rule, class, msg, site, text, ...).
    Returns the known finding that lists exactly this failure, or None."""
    for f in known_findings():
        if prop not in f.get("properties", [f.get("property")]):
            continue
        m = f.get("match", {})
        ok = True
        for k, pat in m.items():
            val = sig.get(k)
            if val is None:
                ok = False
                break
            if isinstance(pat, dict) and "regex" in pat:
                if not re.search(pat["regex"], str(val), re.S):
                    ok = False
                    break
            elif isinstance(pat, list):
                if val not in pat:
                    ok = False
                    break
            elif val != pat:
                ok = False
                break
        if ok and m:
            return f
    return None


# ---------------------------------------------------------------------------
# Result of a check
# ---------------------------------------------------------------------------
CURRENT = None     # the outcome being built (so that violations already established survive a later tool error)


class Outcome:
    def __init__(self, prop, tier, seed, level):
        self.prop = prop
        self.tier = tier
        self.seed = seed
        self.level = level
        self.t0 = time.time()
        self.states = 0
        self.transitions = 0
        self.traces = 0
        self.samples = []
        self.violations = []     # (signature dict, replay payload)
        self.known = {}          # finding id -> count
        self.extra = {}
        self.assumptions = []
        self.legs = []
        self.tool_errors = []
        global CURRENT
        CURRENT = self

    def add_tlc(self, r):
        self.states += r.distinct
        self.transitions += r.generated

    def violation(self, sig, payload):
        k = match_known(self.prop, sig)
        if k is not None:
            fid = k.get("id", "?")
            self.known.setdefault(fid, {"finding": k, "count": 0, "example": sig})
            self.known[fid]["count"] += 1
        else:
            self.violations.append((sig, payload))

    def finish(self):
        wall = time.time() - self.t0
        os.makedirs(EVID, exist_ok=True)
        rdir = os.path.join(OUT, "replay")
        os.makedirs(rdir, exist_ok=True)
        for fid, k in sorted(self.known.items()):
            f = k["finding"]
            log(f"KNOWN-FINDING: property={self.prop} {fid}: {f.get('what','')} (seen {k['count']}x in this run)")
        # de-duplicate violations by signature class so that the output stays readable
        shown = 0
        seen = set()
        for i, (sig, payload) in enumerate(self.violations):
            key = json.dumps({k: sig.get(k) for k in ("leg", "rule", "class", "site", "msg")}, sort_keys=True)[:300]
            if key in seen and shown >= 3:
                continue
            seen.add(key)
            path = os.path.join(rdir, f"{self.prop}-{self.tier}-{self.seed}-{i}.json")
            with open(path, "w") as fh:
                json.dump({"property": self.prop, "signature": sig, "payload": payload,
                           "how": f"./vf replay {path}"}, fh, indent=1, default=str)
            log(f"VIOLATION property={self.prop} replay={path}")
            log("  " + json.dumps(sig, default=str)[:400])
            shown += 1
            if shown >= 25:
                log(f"  ... {len(self.violations) - i - 1} further violations not listed")
                break
        cov = {
            "states": max(self.states, 0),
            "transitions": max(self.transitions, 0),
            "traces_validated_against_impl": self.traces,
            "samples": self.samples[:8] if self.samples else ["(none)"],
            "legs": self.legs,
            "known_findings_seen": {k: v["count"] for k, v in self.known.items()},
        }
        cov.update(self.extra)
        ev = {
            "property_id": self.prop,
            "tier": self.tier,
            "seed": self.seed,
            "level": self.level,
            "coverage": cov,
            "assumptions": self.assumptions,
            "wall_s": round(wall, 2),
            "violations": len(self.violations),
        }
        with open(os.path.join(EVID, f"{self.prop}.json"), "w") as fh:
            json.dump(ev, fh, indent=1, default=str)
        log(f"{self.prop} {self.tier}: states={self.states} transitions={self.transitions} "
            f"traces={self.traces} violations={len(self.violations)} wall={wall:.0f}s")
        return 1 if self.violations else 0
