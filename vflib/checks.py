"""The checks, one per property. Each builds an Outcome through a number of legs."""
import os, re, json, random, copy, time
import core
from core import log, Outcome, ToolError

TIERS = ("quick", "thorough")


def size(tier, quick, thorough):
    """thorough sizes are capped at THOROUGH_CAP x quick so that a thorough run stays within tens of minutes;
    complete enumerations (string-valued sizes) are not capped"""
    if tier == "quick":
        return quick
    if isinstance(quick, int) and isinstance(thorough, int) and quick > 0:
        return min(thorough, core.THOROUGH_CAP * quick)
    return thorough


# ---------------------------------------------------------------------------
# Legs over the reference semantics NlSem
# ---------------------------------------------------------------------------
def corrupt_obs(rec, rng):
    """Return a copy of rec whose observation is wrong in one field (or None)."""
    r = copy.deepcopy(rec)
    o = r["obs"]
    choice = rng.randrange(3)
    if o["class"] == "Value" and choice != 0 and "val" in o:
        v = o["val"]
        t = v.get("t")
        if t == "I" and "v" in v:
            v["v"] += 1
        elif t == "B":
            v["v"] = not v["v"]
        elif t == "S":
            v["cp"] = v["cp"] + [120]
        elif t == "A":
            v["items"] = v["items"] + [{"t": "N"}]
        elif t == "F" and "m" in v:
            v["m"] += 2
        elif t == "N":
            o["val"] = {"t": "I", "v": 0}
        else:
            o["val"] = {"t": "N"}
        r["_corruption"] = "value"
        return r
    if o["class"] == "Err" and choice == 1:
        o["class"] = "Value"
        o["val"] = {"t": "N"}
        r["_corruption"] = "class"
        return r
    # corrupt the printed text
    if o["out"]:
        if choice == 0:
            o["out"] = o["out"][:-1]
        else:
            o["out"] = o["out"][:-1] + [o["out"][-1] + 1]
    else:
        o["out"] = [63]
    r["_corruption"] = "out"
    return r


def run_tv_shards(files, spec, cfg, wd, env_key="RECS", timeout=1500, extra_env=None):
    def one(f):
        env = {env_key: f}
        if extra_env:
            env.update(extra_env)
        return core.tlc_or_die(spec, cfg, env=env, workdir_=wd, timeout=timeout)
    return core.parallel(one, files)


def sig_of(leg, v, rec, text):
    o = rec.get("obs", {})
    return {"leg": leg, "rule": v.get("rule"), "class": o.get("class"), "kind": o.get("kind"),
            "msg": o.get("msg") or o.get("site"), "loc": o.get("loc"), "text": text,
            "fam": rec.get("fam")}


def sem_leg(o, name, gen_args, n, seed, shards=None, spec="TV_Sem.tla", cfg="TV_Sem.cfg",
            sens=12, gen_cmd="gen-sem", timeout=1500, extra_env=None):
    """Generate n records with `nlh <gen_cmd> ...`, validate them against NlSem."""
    t0 = time.time()
    shards = shards or max(1, min(core.nshards(), n // 150))
    wd = core.workdir(f"{o.prop}_{name}")
    per = (n + shards - 1) // shards

    def gen(i):
        f = os.path.join(wd, f"r{i}.ndjson")
        if gen_cmd.endswith("-sharded"):
            core.run_nlh([gen_cmd[:-8]] + gen_args + ["--seed", seed, "--shards", shards, "--shard", i,
                                                      "--first-id", i * 1000000 + 1, "--out", f])
        else:
            core.run_nlh([gen_cmd] + gen_args + ["--seed", seed * 1009 + i, "--n", per,
                                               "--first-id", i * 1000000 + 1, "--out", f])
        return f
    files = core.parallel(gen, list(range(shards)))
    results = run_tv_shards(files, spec, cfg, wd, timeout=timeout, extra_env=extra_env)
    counts = {}
    agreeing = []
    nrec = 0
    for f, r in zip(files, results):
        o.add_tlc(r)
        recs = {x["id"]: x for x in core.read_ndjson(f)}
        srcs = {}
        if os.path.exists(f + ".src"):
            srcs = {x["id"]: x["text"] for x in core.read_ndjson(f + ".src")}
        nrec += len(recs)
        if len(r.verdicts) != len(recs):
            raise ToolError(f"{name}: {len(r.verdicts)} verdicts for {len(recs)} records in {f}")
        for v in r.verdicts:
            key = v["class"] + ":" + v["rule"]
            counts[key] = counts.get(key, 0) + 1
            rec = recs[v["id"]]
            text = srcs.get(v["id"], "")
            if v["class"] == "mismatch":
                o.violation(sig_of(name, v, rec, text),
                            {"text": text, "obs": rec.get("obs"), "spec": v.get("spec"),
                             "spec_out": core.text_of(v.get("out", [])), "record_file": f, "id": v["id"],
                             "spec_module": spec, "cfg": cfg})
            elif v["class"] == "agree":
                agreeing.append(rec)
                if len(o.samples) < 6 and text and len(text) < 400:
                    o.samples.append({"leg": name, "text": text, "verdict": key})
            if v["class"] != "skip":
                o.traces += 1
    # sensitivity: a corrupted observation must be rejected
    tried = rejected = 0
    if sens and agreeing:
        rng = random.Random(seed)
        pick = rng.sample(agreeing, min(sens, len(agreeing)))
        bad = [corrupt_obs(r, rng) for r in pick]
        bf = os.path.join(wd, "corrupt.ndjson")
        core.write_ndjson(bf, bad)
        env = {"RECS": bf}
        if extra_env:
            env.update(extra_env)
        rr = core.tlc_or_die(spec, cfg, env=env, workdir_=wd, timeout=timeout)
        tried = len(bad)
        rejected = sum(1 for v in rr.verdicts if v["class"] == "mismatch")
        accepted = [v for v in rr.verdicts if v["class"] == "agree"]
        # a record whose value is not defined (U1) can only be corrupted in its output
        if accepted:
            byid = {b["id"]: b for b in bad}
            really = [v for v in accepted if not (v["rule"] == "U1" and byid[v["id"]].get("_corruption") == "value")]
            if really:
                raise ToolError(f"{name}: sensitivity self-test failed: corrupted observations accepted: "
                                f"{[(v['id'], byid[v['id']].get('_corruption')) for v in really][:5]}")
            rejected += len(accepted) - len(really)
    o.legs.append({"leg": name, "records": nrec, "verdicts": counts, "sensitivity_tried": tried,
                   "sensitivity_rejected": rejected, "wall_s": round(time.time() - t0, 1)})
    return counts


# ---------------------------------------------------------------------------
# C01
# ---------------------------------------------------------------------------
def check_C01(tier, seed):
    o = Outcome("C01", tier, seed, "model_checking")
    o.assumptions = [
        "NlSem (spec/NlSem.tla, NlValues.tla, NlStatic.tla) states the documented meaning; it was written from README/tests, not from the compiler",
        "programs are generated inside the documented language (DESIGN.md 4.3); runs the specification can not decide (DK) are skipped and counted",
        "integers beyond +-2^29 and floats that need rounding are outside this leg (C06 covers the full integer range)",
    ]
    sem_leg(o, "corpus", ["--family", "corpus"], 1, seed, shards=1, gen_cmd="gen-corpus", sens=8)
    # the order of effects and the point of errors: every composite construct with operands that announce themselves
    directed_leg(o, "effects-order", "effects-order")
    n = size(tier, 2400, 60000)
    sem_leg(o, "random-mixed", ["--family", "mixed"], n, seed)
    sem_leg(o, "random-calls", ["--family", "calls"], n // 3, seed + 1)
    sem_leg(o, "random-control", ["--family", "control"], n // 3, seed + 2)
    sem_leg(o, "random-seq", ["--family", "seq"], n // 3, seed + 3)
    # translation validation: the real compiler's bytecode on the specification's opcode-level machine
    tfiles, twd = sem_and_frames(o, "translation", ["--family", "mixed"], n // 3, seed + 4, steps=3000)
    # the same statement about the DESIGN (no implementation output read): the specified machine running the specified
    # compiler's code yields what the reference semantics says, on the trees of the translation leg and on the complete
    # fused-shape family; the specified code passes the bytecode verifier
    dwd = core.workdir("C01_design")
    ffiles = gen_files(dwd, "gen-rel", ["--set", "fused-directed", "--seed", 1, "--n", 100], core.NCPU, "fd")
    fsem = [f + ".sem" for f in ffiles]
    # the same family on the implementation: every program of the fused-shape pairs (local op literal and literal op local,
    # every operator, operands equal / one apart / of another type) as the real eval answered it, against NlSem
    sem_files_leg(o, "fused-shapes", fsem, dwd)
    # two of 32 slices of the control-flow template set (the deviations of the translation scheme need nested loops
    # with `volgende` and branches that do not end in an expression to show)
    tcs = []
    for k in ((3, 17) if tier == "quick" else range(32)):
        tc = os.path.join(dwd, f"tc{k}.ndjson")
        core.run_nlh(["gen-templates", "--set", "control", "--steps", 0, "--shards", 32, "--shard", k, "--first-id", k * 1000000 + 1, "--out", tc])
        tcs.append(tc)
    # (the result does not depend on the code under test: the quick tier checks a slice, the thorough tier everything)
    dfiles = (tfiles[:6] + fsem[3:7] + tcs[:1]) if tier == "quick" else (tfiles + fsem + tcs)
    design_refinement_leg(o, "design-refinement", dfiles, dwd, deviation_files=tfiles[:1] + fsem[3:5] + tcs[:1])
    # non-vacuity of the reference semantics on this input distribution: every action of NlSem is taken
    wd = os.path.join(core.OUT, "C01_random-mixed")
    merged = os.path.join(wd, "coverage_sample.ndjson")
    with open(merged, "w") as fh:
        for k in range(6):
            fk = os.path.join(wd, f"r{k}.ndjson")
            if os.path.exists(fk):
                fh.write(open(fk).read())
    rc = core.run_tlc("TV_Sem.tla", "TV_Sem.cfg", env={"RECS": merged}, workdir_=wd, coverage=True)
    acts = {k.split(".")[1]: v for k, v in rc.coverage.items() if k.startswith("NlSem.")}
    never = sorted(a for a, v in acts.items() if v == 0 and a not in ("Init",))
    o.extra["nlsem_actions"] = len(acts)
    o.extra["nlsem_actions_never_taken"] = never
    if len(acts) < 30 or never:
        raise ToolError(f"NlSem action coverage: {len(acts)} actions reported, never taken: {never}")
    o.extra["rule"] = "records = generated programs (type-directed, seeded) plus the repository's own corpus; each run of the real eval is validated against the deterministic NlSem machine"
    return o.finish()


# ---------------------------------------------------------------------------
# C02: the machine's unchecked contracts, on all paths of the real compiler's output
# ---------------------------------------------------------------------------
def optab_file(wd):
    f = os.path.join(wd, "optab.json")
    with open(f, "w") as fh:
        fh.write(core.run_nlh(["optable"]))
    return f


def corrupt_bc(rec, k):
    r = copy.deepcopy(rec)
    code = r["bc"]["code"]
    r.pop("steps", None)
    if k % 3 == 0:
        r["bc"]["code"] = code[:-1]                 # the final Halt is gone: main runs off its end
        r["_corruption"] = "drop-halt"
    elif k % 3 == 1:
        code[0] = 200                               # not an opcode
        r["_corruption"] = "undefined-opcode"
    else:
        r["bc"]["consts"] = []                      # every constant index is out of range
        if not any(True for _ in code):
            return None
        r["_corruption"] = "no-constants"
        r["_needs_const"] = True
    return r


def bc_leg(o, name, n, seed, residue_is_violation=False, timeout=1500):
    t0 = time.time()
    shards = max(1, min(core.nshards(), n // 400))
    wd = core.workdir(f"{o.prop}_{name}")
    optab = optab_file(wd)
    per = (n + shards - 1) // shards
    stats = []

    def gen(i):
        f = os.path.join(wd, f"bc{i}.ndjson")
        p = core.subprocess.run([core.NLH, "gen-bc", "--seed", str(seed * 1013 + i), "--n", str(per),
                                 "--first-id", str(i * 1000000 + 1), "--out", f],
                                capture_output=True, text=True, timeout=1800)
        if p.returncode != 0:
            raise ToolError("gen-bc failed: " + p.stderr[-1500:])
        try:
            stats.append(json.loads(p.stderr.strip().splitlines()[-1]))
        except Exception:
            pass
        return f
    files = core.parallel(gen, list(range(shards)))
    files = [f for f in files if os.path.getsize(f) > 0]
    results = run_tv_shards(files, "NlBcSafe.tla", "NlBcSafe.cfg", wd, timeout=timeout,
                            extra_env={"OPTAB": optab})
    counts = {}
    agreeing = []
    nrec = 0
    instrs = 0
    for f, r in zip(files, results):
        if r.violated:
            raise ToolError(f"NlBcSafe internal invariant {r.violated} violated on {f}")
        o.add_tlc(r)
        recs = {x["id"]: x for x in core.read_ndjson(f)}
        srcs = {x["id"]: x["text"] for x in core.read_ndjson(f + ".src")}
        nrec += len(recs)
        if len(r.verdicts) != len(recs):
            raise ToolError(f"{name}: {len(r.verdicts)} verdicts for {len(recs)} records in {f}")
        for v in r.verdicts:
            key = v["class"] + ":" + v["rule"]
            counts[key] = counts.get(key, 0) + 1
            instrs += v.get("instrs", 0)
            rec = recs[v["id"]]
            text = srcs.get(v["id"], "")
            bad = v["class"] == "mismatch" or (v["class"] == "residue" and residue_is_violation)
            if bad:
                sig = sig_of(name, v, rec, text)
                sig["classes"] = sorted({x["class"] for x in v.get("viol", [])})
                o.violation(sig, {"text": text, "viol": v.get("viol"), "obs": rec.get("obs"),
                                  "code": rec["bc"]["code"], "record_file": f, "id": v["id"],
                                  "spec_module": "NlBcSafe.tla", "cfg": "NlBcSafe.cfg"})
            else:
                if v["class"] == "agree":
                    agreeing.append(rec)
                if len(o.samples) < 5 and len(text) < 300:
                    o.samples.append({"leg": name, "text": text, "verdict": key,
                                      "instructions": v.get("instrs"), "abstract_states": v.get("visited")})
            o.traces += 1
    tried = rejected = 0
    if agreeing:
        rng = random.Random(seed)
        pick = rng.sample(agreeing, min(12, len(agreeing)))
        bad = []
        for k, r in enumerate(pick):
            c = corrupt_bc(r, k)
            if c is not None and not (c.get("_needs_const") and not any(b == 0 for b in c["bc"]["code"][:1])):
                bad.append(c)
        bf = os.path.join(wd, "corrupt.ndjson")
        core.write_ndjson(bf, bad)
        rr = core.tlc_or_die("NlBcSafe.tla", "NlBcSafe.cfg", env={"RECS": bf, "OPTAB": optab}, workdir_=wd)
        tried = len(bad)
        rejected = sum(1 for v in rr.verdicts if v["class"] == "mismatch")
        if rejected != tried:
            byid = {b["id"]: b for b in bad}
            raise ToolError(f"{name}: sensitivity self-test failed: corrupted bytecode accepted: "
                            f"{[(v['id'], byid[v['id']]['_corruption']) for v in rr.verdicts if v['class'] != 'mismatch']}")
    o.legs.append({"leg": name, "records": nrec, "verdicts": counts, "instructions_verified": instrs,
                   "inputs": stats[:4], "sensitivity_tried": tried, "sensitivity_rejected": rejected,
                   "wall_s": round(time.time() - t0, 1)})


def check_C02(tier, seed):
    o = Outcome("C02", tier, seed, "model_checking")
    o.assumptions = [
        "the opcode table (byte, name, operand widths) exported by the implementation is the one the machine dispatches on",
        "the per-opcode stack effect stated in NlBcSafe is bound to the real machine by the recorded dispatch events (vm-effect rule)",
        "array bounds of Vec-indexed accesses (globals) are checked by Rust itself and are not part of the unchecked contract",
    ]
    n = size(tier, 12000, 400000)
    bc_leg(o, "all-paths", n, seed)
    # the call templates (every arity up to 4, then 16, 254 and 255 arguments; bodies that end in every way a body can
    # end) on the real machine: the code verified on all paths, the verifier's effect table bound to the recorded
    # dispatches, probe faults, and the frame discipline of every Call / Return
    wd = core.workdir("C02_templates")
    tfiles = gen_files(wd, "gen-templates", ["--set", "calls", "--steps", 3000], core.NCPU, "t")
    residue_leg(o, "call-templates-all-paths-and-binding", tfiles, wd, keep_steps=True, residue_is_violation=False)
    frames_files_leg(o, "call-templates-discipline", tfiles, wd)
    o.extra["exhaustive"] = True
    o.extra["rule"] = ("per compiled program the abstract machine (region, ip, height) is explored completely "
                       "(all paths, both branches of every conditional jump); programs are generated ones, "
                       "token edits of them and random token sequences that the front end accepts")
    return o.finish()


# ---------------------------------------------------------------------------
# Transformation laws (NlXform): C09 and C10
# ---------------------------------------------------------------------------
def rel_leg(o, name, xset, n, seed, timeout=1500):
    t0 = time.time()
    shards = max(1, min(core.nshards(), n // 100))
    wd = core.workdir(f"{o.prop}_{name}")
    per = (n + shards - 1) // shards

    def gen(i):
        f = os.path.join(wd, f"rel{i}.ndjson")
        core.run_nlh(["gen-rel", "--set", xset, "--seed", seed * 1021 + i, "--n", per, "--shard", i, "--shards", shards,
                      "--first-id", i * 1000000 + 1, "--out", f])
        return f
    files = core.parallel(gen, list(range(shards)))
    results = run_tv_shards(files, "TV_Rel.tla", "TV_Rel.cfg", wd, timeout=timeout)
    counts = {}
    agreeing = []
    nrec = 0
    for f, r in zip(files, results):
        o.add_tlc(r)
        recs = {x["id"]: x for x in core.read_ndjson(f)}
        nrec += len(recs)
        if len(r.verdicts) != len(recs):
            raise ToolError(f"{name}: {len(r.verdicts)} verdicts for {len(recs)} records")
        for v in r.verdicts:
            key = v["class"] + ":" + v["rule"]
            counts[key] = counts.get(key, 0) + 1
            rec = recs[v["id"]]
            if v["class"] == "mismatch":
                b, va = rec["base"], rec["var"]
                sig = {"leg": name, "rule": "law:" + v["rule"], "class": va.get("class"), "kind": va.get("kind"),
                       "msg": va.get("msg") or va.get("site"), "loc": va.get("loc"),
                       "base_class": b.get("class"), "text": rec["var_text"]}
                o.violation(sig, {"transformation": v["rule"], "base_text": rec["base_text"], "var_text": rec["var_text"],
                                  "base_obs": {k: b[k] for k in b if k != "out"}, "var_obs": {k: va[k] for k in va if k != "out"},
                                  "base_out": core.text_of(b.get("out", [])), "var_out": core.text_of(va.get("out", [])),
                                  "record_file": f, "id": v["id"], "spec_module": "TV_Rel.tla", "cfg": "TV_Rel.cfg"})
            elif v["class"] == "agree":
                agreeing.append(rec)
                if len(o.samples) < 4 and len(rec["base_text"]) < 300:
                    o.samples.append({"leg": name, "transformation": v["rule"], "program": rec["base_text"], "image": rec["var_text"]})
            if v["class"] != "skip":
                o.traces += 1
    # sensitivity: a pair whose observations differ must break the law
    tried = rejected = 0
    if agreeing:
        rng = random.Random(seed)
        bad = []
        for r in rng.sample(agreeing, min(12, len(agreeing))):
            c = copy.deepcopy(r)
            if c["kind"] == "undeclare":
                c["var"] = {"class": "Value", "val": {"t": "N"}, "out": []}
            else:
                c["var"]["out"] = c["var"]["out"] + [33]
            bad.append(c)
        bf = os.path.join(wd, "corrupt.ndjson")
        core.write_ndjson(bf, bad)
        rr = core.tlc_or_die("TV_Rel.tla", "TV_Rel.cfg", env={"RECS": bf}, workdir_=wd)
        tried = len(bad)
        rejected = sum(1 for v in rr.verdicts if v["class"] == "mismatch")
        if tried != rejected:
            raise ToolError(f"{name}: sensitivity self-test failed ({rejected}/{tried})")
    o.legs.append({"leg": name, "pairs": nrec, "verdicts": counts, "sensitivity_tried": tried,
                   "sensitivity_rejected": rejected, "wall_s": round(time.time() - t0, 1)})
    # every program of every pair is also validated against the reference semantics
    sems = [f + ".sem" for f in files]
    sem_files_leg(o, name + "-abs", sems, wd)


def sem_files_leg(o, name, files, wd, spec="TV_Sem.tla", cfg="TV_Sem.cfg", timeout=1500):
    t0 = time.time()
    results = run_tv_shards(files, spec, cfg, wd, timeout=timeout)
    counts = {}
    nrec = 0
    nshown = 0
    agreeing = []
    for f, r in zip(files, results):
        o.add_tlc(r)
        recs = {x["id"]: x for x in core.read_ndjson(f)}
        srcs = {x["id"]: x["text"] for x in core.read_ndjson(f + ".src")} if os.path.exists(f + ".src") else {}
        nrec += len(recs)
        nshown += sum(1 for x in recs.values() if isinstance(x.get("obs"), dict) and "shown" in x["obs"])
        if len(r.verdicts) != len(recs):
            raise ToolError(f"{name}: {len(r.verdicts)} verdicts for {len(recs)} records in {f}")
        for v in r.verdicts:
            key = v["class"] + ":" + v["rule"]
            counts[key] = counts.get(key, 0) + 1
            if v["class"] == "mismatch":
                rec = recs[v["id"]]
                text = srcs.get(v["id"], "")
                o.violation(sig_of(name, v, rec, text),
                            {"text": text, "obs": rec.get("obs"), "spec": v.get("spec"),
                             "spec_out": core.text_of(v.get("out", [])), "record_file": f, "id": v["id"],
                             "spec_module": spec, "cfg": cfg})
            elif v["class"] == "agree" and len(agreeing) < 400 and recs[v["id"]]["obs"]["class"] in ("Value", "Err"):
                agreeing.append(recs[v["id"]])
            if v["class"] != "skip":
                o.traces += 1
    o.legs.append({"leg": name, "records": nrec, "verdicts": counts, "wall_s": round(time.time() - t0, 1)})
    if nshown:
        o.legs[-1]["lines_also_typed_into_the_executable_prompt"] = nshown
    return agreeing     # records the specification accepted (the sensitivity self-tests corrupt these, never a rejected one)


def check_C09(tier, seed):
    o = Outcome("C09", tier, seed, "model_checking")
    o.assumptions = [
        "lexical resolution as stated in spec/NlStatic.tla (own function's open scopes innermost first, then the program's open scopes; later same-scope declaration wins; no closures)",
        "transformation laws of spec/NlXform.tla; the transformations themselves are applied by the harness (harness/src/xform.rs) to the generated tree",
    ]
    n = size(tier, 2400, 60000)
    sem_leg(o, "names", ["--family", "names"], n, seed)
    # variables in nested blocks of every kind, at top level and in functions (called twice, and from a function with
    # locals of its own): every variable has a value of its own that is checked after the inner blocks are gone
    directed_leg(o, "slots", "slots")
    rel_leg(o, "laws", "names", n // 2, seed)
    o.extra["rule"] = ("programs with a small identifier pool (the same name reused across blocks, functions and nesting levels), "
                       "shadowing, same-scope re-declaration and deliberately stray identifiers; each validated against NlStatic+NlSem, "
                       "and under renaming / unused shadowing declaration / undeclared name against the laws of NlXform")
    return o.finish()


def check_C10(tier, seed):
    o = Outcome("C10", tier, seed, "model_checking")
    o.assumptions = [
        "transformation laws of spec/NlXform.tla (wrap in function, literal -> variable, mirrored operands, prepended literals); side conditions: wrapped programs define no functions, mirrored operands are a literal and a name",
        "the verdict of the law legs involves no reference interpreter: two runs of the real eval are compared",
    ]
    n = size(tier, 2400, 60000)
    rel_leg(o, "laws", "impl", n, seed)
    rel_leg(o, "fused-shapes-every-type", "fused-directed", 1600, seed)
    rel_leg(o, "literal-pool", "literal-pool", 1600, seed)
    o.extra["rule"] = ("closed generated programs paired with their images under the four implementation-choice transformations; "
                       "complete enumeration of the shape the compiler fuses (local op integer literal, both orientations, 11 operators) "
                       "applied to values of every type, against the same computation through a temporary; complete cross product of 32 literals that are "
                       "close to one another (signed zeros, neighbouring floats, equal spellings in different types, range ends): a literal "
                       "means the same whether or not the other one was written before it")
    return o.finish()


# ---------------------------------------------------------------------------
# Frame / loop discipline over recorded dispatch events (NlFrames): C11, C12
# ---------------------------------------------------------------------------
def frames_files_leg(o, name, files, wd, timeout=1500):
    """files: ndjson records with `steps` and `bc`; records without bytecode are left out."""
    t0 = time.time()
    optab = optab_file(wd)
    ff = []
    for f in files:
        recs = [r for r in core.read_ndjson(f) if r.get("bc") and r.get("steps")]
        g = f + ".frames"
        core.write_ndjson(g, recs)
        if recs:
            ff.append((f, g))
    results = run_tv_shards([g for _, g in ff], "NlFrames.tla", "NlFrames.cfg", wd, timeout=timeout,
                            extra_env={"OPTAB": optab})
    counts = {}
    nrec = nev = 0
    agreeing = []
    for (f, g), r in zip(ff, results):
        if r.violated:
            raise ToolError(f"NlFrames internal invariant {r.violated} violated on {g}")
        o.add_tlc(r)
        recs = {x["id"]: x for x in core.read_ndjson(g)}
        srcs = {x["id"]: x["text"] for x in core.read_ndjson(f + ".src")} if os.path.exists(f + ".src") else {}
        nrec += len(recs)
        if len(r.verdicts) != len(recs):
            raise ToolError(f"{name}: {len(r.verdicts)} verdicts for {len(recs)} records in {g}")
        for v in r.verdicts:
            key = v["class"] + ":" + v["rule"]
            counts[key] = counts.get(key, 0) + 1
            nev += v.get("events", 0)
            rec = recs[v["id"]]
            text = srcs.get(v["id"], "")
            o.traces += 1
            if v["class"] == "mismatch":
                sig = sig_of(name, v, rec, text)
                sig["classes"] = sorted({x["class"] for x in v.get("viol", [])})
                o.violation(sig, {"text": text, "viol": v.get("viol")[:10], "obs": rec.get("obs"),
                                  "record_file": g, "id": v["id"], "spec_module": "NlFrames.tla", "cfg": "NlFrames.cfg"})
            else:
                agreeing.append(rec)
    tried = rejected = 0
    cand = [r for r in agreeing if len(r["steps"]) > 20 and r.get("mode", "full") == "full"
            and any(e[4] > 1 for e in r["steps"])]
    if cand:
        rng = random.Random(7)
        bad = []
        for k, r in enumerate(rng.sample(cand, min(8, len(cand)))):
            c = copy.deepcopy(r)
            # corrupt one field of one event inside a call: base pointer or stack length
            idx = [i for i, e in enumerate(c["steps"]) if e[4] > 1]
            j = idx[len(idx) // 2]
            c["steps"][j][3 if k % 2 == 0 else 4] += 1
            bad.append(c)
        bf = os.path.join(wd, "corrupt_frames.ndjson")
        core.write_ndjson(bf, bad)
        rr = core.tlc_or_die("NlFrames.tla", "NlFrames.cfg", env={"RECS": bf, "OPTAB": optab}, workdir_=wd)
        tried = len(bad)
        rejected = sum(1 for v in rr.verdicts if v["class"] == "mismatch")
        if rr.violated:
            rejected = tried
        if tried != rejected:
            raise ToolError(f"{name}: sensitivity self-test failed ({rejected}/{tried})")
    o.legs.append({"leg": name, "records": nrec, "events_checked": nev, "verdicts": counts,
                   "sensitivity_tried": tried, "sensitivity_rejected": rejected,
                   "wall_s": round(time.time() - t0, 1)})


def vm_files_leg(o, name, files, wd, timeout=1800):
    """NlVM: the real compiler's bytecode run on the opcode-level machine of the specification; its result against
    the recorded observation (translation validation, together with the NlSem leg on the same records) and its
    states against the recorded dispatch events (lock step)."""
    t0 = time.time()
    optab = optab_file(wd)
    ff = []
    for f in files:
        # (a run the implementation's own instruction budget cut short has no outcome to compare: left out)
        recs = [r for r in core.read_ndjson(f) if r.get("bc") and r.get("steps") is not None and r["obs"]["class"] != "Budget"]
        g = f + ".vm"
        core.write_ndjson(g, recs)
        if recs:
            ff.append((f, g))
    results = run_tv_shards([g for _, g in ff], "NlVM.tla", "NlVM.cfg", wd, timeout=timeout, extra_env={"OPTAB": optab})
    counts = {}
    nrec = nsteps = ndrift = 0
    agreeing = []
    drift_examples = []
    for (f, g), r in zip(ff, results):
        o.add_tlc(r)
        recs = {x["id"]: x for x in core.read_ndjson(g)}
        srcs = {x["id"]: x["text"] for x in core.read_ndjson(f + ".src")} if os.path.exists(f + ".src") else {}
        nrec += len(recs)
        if len(r.verdicts) != len(recs):
            raise ToolError(f"{name}: {len(r.verdicts)} verdicts for {len(recs)} records in {g}")
        for v in r.verdicts:
            key = v["class"] + ":" + v["rule"]
            counts[key] = counts.get(key, 0) + 1
            nsteps += v.get("steps", 0)
            rec = recs[v["id"]]
            text = srcs.get(v["id"], "")
            o.traces += 1
            if v["class"] == "mismatch":
                sig = sig_of(name, v, rec, text)
                o.violation(sig, {"text": text, "obs": rec.get("obs"), "vm_result": v.get("vmres"),
                                  "vm_out": core.text_of(v.get("vmout", [])), "record_file": g, "id": v["id"],
                                  "spec_module": "NlVM.tla", "cfg": "NlVM.cfg"})
            elif v.get("drift", 0) > 0 and v["class"] != "skip":
                # the real machine's internal state differs from this model's at some dispatch while the
                # observable outcome agrees: model drift is reported in the evidence, it is not a violation
                # (the frame and loop discipline that the properties do demand is NlFrames' business)
                ndrift += 1
                if len(drift_examples) < 3:
                    ev = rec["steps"][v["drift"] - 1] if v["drift"] <= len(rec["steps"]) else None
                    drift_examples.append({"text": text[:200], "at_step": v["drift"], "event": ev})
            elif v["class"] == "agree":
                agreeing.append(rec)
    tried = rejected = 0
    cand = [r for r in agreeing if len(r["steps"]) > 10]
    if cand:
        rng = random.Random(11)
        bad = []
        for k, r_ in enumerate(rng.sample(cand, min(8, len(cand)))):
            c = copy.deepcopy(r_)
            if k % 2 == 0:
                j = len(c["steps"]) // 2
                c["steps"][j][2] += 1          # one stack height
                c["_expect"] = "drift"
            else:
                c = corrupt_obs(c, rng)
                c["_expect"] = "mismatch"
            bad.append(c)
        bf = os.path.join(wd, f"corrupt_vm_{name}.ndjson")
        core.write_ndjson(bf, bad)
        rr = core.tlc_or_die("NlVM.tla", "NlVM.cfg", env={"RECS": bf, "OPTAB": optab}, workdir_=wd)
        byid = {b["id"]: b for b in bad}
        tried = len(bad)
        for v in rr.verdicts:
            exp = byid[v["id"]]["_expect"]
            if (exp == "drift" and v.get("drift", 0) > 0) or (exp == "mismatch" and v["class"] == "mismatch"):
                rejected += 1
        if tried != rejected:
            raise ToolError(f"{name}: sensitivity self-test failed ({rejected}/{tried})")
    o.legs.append({"leg": name, "records": nrec, "vm_steps": nsteps, "verdicts": counts,
                   "model_conformance": "ok" if ndrift == 0 else f"drift in {ndrift} records", "drift_examples": drift_examples,
                   "sensitivity_tried": tried, "sensitivity_rejected": rejected, "wall_s": round(time.time() - t0, 1)})


def gen_files(wd, cmd, args, shards, prefix):
    def gen(i):
        f = os.path.join(wd, f"{prefix}{i}.ndjson")
        core.run_nlh([cmd] + args + ["--shards", shards, "--shard", i, "--first-id", i * 1000000 + 1, "--out", f])
        return f
    return core.parallel(gen, list(range(shards)))


def sem_and_frames(o, name, gen_args, n, seed, steps=4000, gen_cmd="gen-sem"):
    """records with dispatch events: validated against NlSem (values) and NlFrames (discipline)"""
    shards = max(1, min(core.nshards(), n // 100))
    wd = core.workdir(f"{o.prop}_{name}")
    per = (n + shards - 1) // shards

    def gen(i):
        f = os.path.join(wd, f"r{i}.ndjson")
        core.run_nlh([gen_cmd] + gen_args + ["--seed", seed * 1009 + i, "--n", per, "--steps", steps, "--bytecode", 1,
                                           "--first-id", i * 1000000 + 1, "--out", f])
        return f
    files = core.parallel(gen, list(range(shards)))
    sem_files_leg(o, name + "-values", files, wd)
    frames_files_leg(o, name + "-discipline", files, wd)
    vm_files_leg(o, name + "-machine", files, wd)
    compile_conformance_leg(o, name + "-compiler", files, wd)
    return files, wd


def residue_leg(o, name, files, wd, keep_steps=False, residue_is_violation=True):
    """NlBcSafe on the bytecode of the given records (with keep_steps also its binding to the recorded dispatches and
    the probe faults of the run); residue classes counted as violations unless told otherwise"""
    t0 = time.time()
    optab = optab_file(wd)
    ff = []
    for f in files:
        recs = [r for r in core.read_ndjson(f) if r.get("bc")]
        if not keep_steps:
            for r in recs:
                r.pop("steps", None)
        g = f + ".bc"
        core.write_ndjson(g, recs)
        if recs:
            ff.append((f, g))
    results = run_tv_shards([g for _, g in ff], "NlBcSafe.tla", "NlBcSafe.cfg", wd, extra_env={"OPTAB": optab})
    counts = {}
    nrec = 0
    for (f, g), r in zip(ff, results):
        o.add_tlc(r)
        recs = {x["id"]: x for x in core.read_ndjson(g)}
        srcs = {x["id"]: x["text"] for x in core.read_ndjson(f + ".src")} if os.path.exists(f + ".src") else {}
        nrec += len(recs)
        for v in r.verdicts:
            key = v["class"] + ":" + v["rule"]
            counts[key] = counts.get(key, 0) + 1
            o.traces += 1
            if v["class"] == "mismatch" or (v["class"] == "residue" and residue_is_violation):
                rec = recs[v["id"]]
                text = srcs.get(v["id"], "")
                sig = sig_of(name, v, rec, text)
                sig["classes"] = sorted({x["class"] for x in v.get("viol", [])})
                o.violation(sig, {"text": text, "viol": v.get("viol")[:10], "record_file": g, "id": v["id"],
                                  "spec_module": "NlBcSafe.tla", "cfg": "NlBcSafe.cfg"})
    o.legs.append({"leg": name, "records": nrec, "verdicts": counts, "wall_s": round(time.time() - t0, 1)})


def directed_leg(o, name, xset):
    """a hand-written complete grid of texts around one theme (harness: semfam::directed_texts), validated by TV_Sem"""
    wd = core.workdir(f"{o.prop}_{name}")
    files = gen_files(wd, "gen-corpus", ["--set", xset], 4, "d")
    files = [f for f in files if os.path.getsize(f) > 0]
    agreeing = sem_files_leg(o, name, files, wd)
    if not agreeing:
        raise ToolError(f"{name}: no record of the directed family was accepted by the specification")


def check_C11(tier, seed):
    o = Outcome("C11", tier, seed, "model_checking")
    o.assumptions = [
        "values and output: NlSem's rules for if-chains, zolang, stop / volgende / antwoord (DESIGN.md 4.2)",
        "no residue: NlFrames.LoopResidue on the recorded back edges of the real machine, and one-height-per-instruction (NlBcSafe) on all paths of the compiled code",
    ]
    # complete enumeration over the template set
    wd = core.workdir("C11_templates")
    files = gen_files(wd, "gen-templates", ["--set", "control", "--steps", 3000], core.NCPU, "t")
    sem_files_leg(o, "templates-values", files, wd)
    frames_files_leg(o, "templates-discipline", files, wd)
    residue_leg(o, "templates-all-paths", files, wd)
    # the value of a loop used as an expression: every way a body can end x every use of the value x 0 / 1 / 3 iterations
    directed_leg(o, "loop-values", "loop-values")
    # random nests
    sem_and_frames(o, "random-control", ["--family", "control"], size(tier, 1600, 40000), seed)
    # loops far past 65 536 iterations: back edges only
    wd2 = core.workdir("C11_longloops")
    lf = os.path.join(wd2, "loops.ndjson")
    core.run_nlh(["gen-loops", "--out", lf])
    for r in core.read_ndjson(lf):
        if r["obs"]["class"] != "Value":
            o.violation({"leg": "long-loops", "rule": "class", "class": r["obs"]["class"], "msg": r["obs"].get("msg"),
                         "text": r.get("what")}, {"obs": r["obs"], "what": r.get("what")})
    frames_files_leg(o, "long-loops", [lf], wd2, timeout=1800)
    o.extra["exhaustive"] = True
    o.extra["rule"] = ("template set: 6 nest shapes x all pairs of slot fillers (expression, stel, empty block, nested block, value, if, stop, "
                       "volgende, conditional and deeply nested exits, antwoord) x 0/1/2/5 iterations x top level / inside a function, enumerated "
                       "completely; random nests beyond; four loops of 70 000+ iterations validated on their back edges")
    return o.finish()


def check_C12(tier, seed):
    o = Outcome("C12", tier, seed, "model_checking")
    o.assumptions = [
        "values and output: NlSem's call rule (arguments left to right, then callee; fresh activation; parameters by position)",
        "resumption: NlFrames checks every recorded Call / Return of the real machine (base pointer, locals padding, return address, restored base, stack cut back to one result)",
        "call depth is bounded by the specification's MaxDepth (260) and step budget; deeper recursion is skipped as DontKnow",
    ]
    wd = core.workdir("C12_templates")
    files = gen_files(wd, "gen-templates", ["--set", "calls", "--steps", 6000], 8, "t")
    sem_files_leg(o, "templates-values", files, wd)
    frames_files_leg(o, "templates-discipline", files, wd)
    sem_and_frames(o, "random-calls", ["--family", "calls"], size(tier, 2400, 60000), seed)
    # recursion to depth 16 000 (closed forms) and beyond the 16-bit stack index (must be an error)
    wd3 = core.workdir("C12_deep")
    df = os.path.join(wd3, "deep.ndjson")
    core.run_nlh(["gen-deep-laws", "--out", df], timeout=1800)
    law_files_leg(o, "deep-recursion-laws", [df], wd3)
    o.extra["rule"] = ("template set: functions of 0-4 parameters x 0-4 locals called from 8 expression contexts; direct, mutual and "
                       "doubly recursive functions to depth 200; empty bodies; functions stored, passed and returned; random call-heavy programs beyond")
    return o.finish()


# ---------------------------------------------------------------------------
# The collector: C03 (nothing reachable is reclaimed) and C04 (garbage is, nothing is left)
# ---------------------------------------------------------------------------
GC_ACTIONS = ("Alloc", "Link", "Unroot", "Collect", "Untrace", "Drop", "CallerFree")
C03_CLASSES = {"lost", "twice", "markidx", "dead-deref", "double-free", "reclaimed", "root-not-passed",
               "mark-index", "two-owners"}
C04_CLASSES = {"leak", "leak-early", "unmanaged", "kept-garbage", "leak-managed", "leak-lost", "double-free", "twice"}


def gc_model_leg(o, tier):
    """M1: the design and the algorithm of the collector, all operation sequences (NlGC)"""
    t0 = time.time()
    wd = core.workdir(f"{o.prop}_model")
    cfg = "MC_NlGC.cfg" if tier == "quick" else "MC_NlGC_thorough.cfg"
    r = core.run_tlc("NlGC.tla", cfg, workdir_=wd, workers=8, coverage=True, timeout=3000, xmx="8g")
    if r.error:
        raise ToolError("NlGC: " + r.error)
    if r.violated:
        # the design itself (Dev = {}) breaks one of its invariants: a tool/spec error, not a finding about the code
        raise ToolError(f"NlGC (Dev = {{}}) violates {r.violated}")
    o.add_tlc(r)
    uncovered = [a for a in GC_ACTIONS if r.coverage.get("NlGC." + a, 0) == 0]
    if uncovered:
        raise ToolError(f"NlGC actions never taken (vacuous model): {uncovered}")
    refuted = {}
    for dev in ("dev1", "dev2"):
        rr = core.run_tlc("NlGC.tla", f"MC_NlGC_{dev}.cfg", workdir_=wd, workers=4, timeout=1200)
        refuted[dev] = rr.violated
        if not rr.violated:
            raise ToolError(f"non-vacuity: deviation {dev} is not refuted by the invariants of NlGC")
    acts = {k.split(".")[1]: v for k, v in r.coverage.items() if k.startswith("NlGC.")}
    if not acts:
        raise ToolError("NlGC: no action coverage reported by TLC")
    o.legs.append({"leg": "model", "cfg": cfg, "distinct_states": r.distinct, "generated": r.generated,
                   "action_coverage": {k: acts[k] for k in acts if k in GC_ACTIONS},
                   "deviations_refuted": refuted, "wall_s": round(time.time() - t0, 1)})


def gc_replay_leg(o, classes, tier, seed):
    """M2: behaviours of NlGC replayed on the real collector"""
    t0 = time.time()
    wd = core.workdir(f"{o.prop}_replay")
    num = size(tier, 300, 6000)
    r = core.run_tlc("NlGCVec.tla", "NlGCVec.cfg", workdir_=wd, simulate=f"num={num}", timeout=1200,
                     extra=["-depth", "12", "-seed", str(seed)])
    if r.error:
        raise ToolError("NlGCVec: " + r.error)
    vecs = r.vecs[: size(tier, 1500, 40000)]
    o.add_tlc(r)
    if not vecs:
        raise ToolError("NlGCVec produced no vectors")
    shards = min(core.nshards(), max(1, len(vecs) // 100))
    files = []
    for k in range(shards):
        vf_ = os.path.join(wd, f"vec{k}.ndjson")
        core.write_ndjson(vf_, vecs[k::shards])
        files.append(vf_)

    def rep(k):
        out = os.path.join(wd, f"rep{k}.ndjson")
        core.run_nlh(["replay-gc", "--in", files[k], "--out", out, "--first-id", k * 1000000 + 1])
        return out
    reps = core.parallel(rep, list(range(shards)))
    results = run_tv_shards(reps, "TV_GCReplay.tla", "TV_GCReplay.cfg", wd)
    counts = {}
    nrec = 0
    agreeing_like = []
    for f, rr in zip(reps, results):
        o.add_tlc(rr)
        recs = {x["id"]: x for x in core.read_ndjson(f)}
        nrec += len(recs)
        for v in rr.verdicts:
            o.traces += 1
            rec = recs[v["id"]]
            agreeing_like.append(rec)
            for c in v.get("classes", []):
                counts[c] = counts.get(c, 0) + 1
                if c in classes:
                    at = [x["at"] for x in v["first"] if x["class"] == c][0]
                    ops = [x["op"] for x in rec["ops"]]
                    o.violation({"leg": "replay", "rule": "gc", "hclass": c, "at": at, "ops": ops[:at]},
                                {"ops": rec["ops"][:at], "observed": rec["obs"][:at], "class": c})
            if not v.get("classes"):
                counts["conforms"] = counts.get("conforms", 0) + 1
    if len(o.samples) < 3 and agreeing_like:
        o.samples.append({"leg": "replay", "behaviour": [x["op"] for x in agreeing_like[0]["ops"]]})
    # sensitivity: an object the design keeps live reported dead must be flagged "lost"
    bad = []
    for r_ in agreeing_like[:10]:
        c = copy.deepcopy(r_)
        for j, e in enumerate(c["ops"]):
            if e["live"]:
                c["obs"][j]["live"] = [x for x in c["obs"][j]["live"] if x != e["live"][0]]
                bad.append(c)
                break
    tried = rejected = 0
    if bad:
        bf = os.path.join(wd, "corrupt.ndjson")
        core.write_ndjson(bf, bad)
        rr = core.tlc_or_die("TV_GCReplay.tla", "TV_GCReplay.cfg", env={"RECS": bf}, workdir_=wd)
        tried = len(bad)
        rejected = sum(1 for v in rr.verdicts if "lost" in v.get("classes", []))
        if tried != rejected:
            raise ToolError(f"replay: sensitivity self-test failed ({rejected}/{tried})")
    # ... and an object the design releases at a COLLECTION that the collector is reported to have kept must be
    # flagged "kept-garbage" (not the end-of-run "leak" that is a known finding)
    bad2 = []
    for r_ in agreeing_like:
        if len(bad2) >= 6:
            break
        for j, e in enumerate(r_["ops"]):
            if e["op"][0] == "collect" and j > 0:
                gone = [x for x in r_["ops"][j - 1]["live"] if x not in e["live"]]
                if gone and all(x not in r_["obs"][j]["live"] for x in gone):
                    c = copy.deepcopy(r_)
                    for jj in range(j, len(c["obs"])):
                        if gone[0] not in c["obs"][jj]["live"]:
                            c["obs"][jj]["live"] = sorted(c["obs"][jj]["live"] + [gone[0]])
                            c["obs"][jj]["managed"] = sorted(c["obs"][jj]["managed"] + [gone[0]])
                    bad2.append(c)
                    break
    if bad2:
        bf2 = os.path.join(wd, "corrupt_kept.ndjson")
        core.write_ndjson(bf2, bad2)
        rr2 = core.tlc_or_die("TV_GCReplay.tla", "TV_GCReplay.cfg", env={"RECS": bf2}, workdir_=wd)
        rej2 = sum(1 for v in rr2.verdicts if "kept-garbage" in v.get("classes", []))
        if rej2 != len(bad2):
            raise ToolError(f"replay: sensitivity self-test (kept garbage) failed ({rej2}/{len(bad2)})")
        tried += len(bad2)
        rejected += rej2
    o.legs.append({"leg": "replay", "behaviours": nrec, "classes_seen": counts, "sensitivity_tried": tried,
                   "sensitivity_rejected": rejected, "wall_s": round(time.time() - t0, 1)})


def ledger_leg(o, name, classes, mode, n, seed, max_k=120):
    """M3: heap-ledger traces of whole evaluations validated against NlHeapLedger"""
    t0 = time.time()
    shards = max(1, min(core.nshards(), n // (4 if mode == "aborts" else 40)))
    wd = core.workdir(f"{o.prop}_{name}")
    per = (n + shards - 1) // shards

    def gen(i):
        f = os.path.join(wd, f"h{i}.ndjson")
        core.run_nlh(["gen-heap", "--mode", mode, "--seed", seed * 1031 + i, "--n", per, "--max-k", max_k,
                      "--directed", 1 if i == 0 else 0, "--first-id", i * 1000000 + 1, "--out", f], timeout=3000)
        return f
    files = core.parallel(gen, list(range(shards)))
    # one TLC state per event, each holding the live set: a ledger of tens of thousands of events (a loop that allocates
    # without ever returning from a call) costs minutes; such records are left out and counted
    MAX_EVENTS = 6000
    too_long = 0
    for f in files:
        recs = core.read_ndjson(f)
        keep = [r for r in recs if len(r.get("heap", [])) <= MAX_EVENTS]
        if len(keep) != len(recs):
            too_long += len(recs) - len(keep)
            core.write_ndjson(f, keep)
    results = run_tv_shards(files, "NlHeapLedger.tla", "NlHeapLedger.cfg", wd, timeout=3000)
    counts = {}
    if too_long:
        counts["left-out-longer-than-6000-events"] = too_long
    nrec = nev = 0
    pool = []
    for f, r in zip(files, results):
        if r.violated:
            raise ToolError(f"NlHeapLedger internal invariant {r.violated} violated on {f}")
        o.add_tlc(r)
        recs = {x["id"]: x for x in core.read_ndjson(f)}
        srcs = {x["id"]: x for x in core.read_ndjson(f + ".src")}
        nrec += len(recs)
        if len(r.verdicts) != len(recs):
            raise ToolError(f"{name}: {len(r.verdicts)} verdicts for {len(recs)} records in {f}")
        for v in r.verdicts:
            o.traces += 1
            nev += v.get("events", 0)
            rec = recs[v["id"]]
            if rec["obs"]["class"] in ("Panic", "Abort", "Timeout"):
                counts["crashed-run"] = counts.get("crashed-run", 0) + 1
                continue
            if len(pool) < 40 and rec["heap"]:
                pool.append(rec)
            cls = sorted({x["class"] for x in v.get("viol", [])})
            if not cls:
                counts["clean"] = counts.get("clean", 0) + 1
            for c in cls:
                counts[c] = counts.get(c, 0) + 1
                if c in classes:
                    s_ = srcs.get(v["id"], {})
                    o.violation({"leg": name, "rule": "heap", "hclass": c, "k": rec.get("k"),
                                 "class": rec["obs"]["class"], "text": s_.get("text", "")},
                                {"text": s_.get("text", ""), "abort_after": rec.get("k"), "viol": v["viol"][:6],
                                 "record_file": f, "id": v["id"], "spec_module": "NlHeapLedger.tla",
                                 "cfg": "NlHeapLedger.cfg"})
    if pool and len(o.samples) < 4:
        o.samples.append({"leg": name, "events": pool[0]["heap"][:12]})
    # sensitivity: injected use-after-release, double release and premature reclamation are flagged
    bad = []
    for k, r_ in enumerate(pool[:9]):
        c = copy.deepcopy(r_)
        ids = [e["id"] for e in c["heap"] if e["e"] == "Alloc"]
        if not ids:
            continue
        # injected right after the first allocation: the specification keeps at most MaxViol violations per
        # record, and a session on the pinned tree can fill that with its known findings before the end
        at = next(j for j, e in enumerate(c["heap"]) if e["e"] == "Alloc") + 1
        if k % 3 == 0:
            c["heap"].insert(at, {"e": "DeadDeref", "id": ids[0]}); c["_expect"] = "dead-deref"
        elif k % 3 == 1:
            c["heap"].insert(at, {"e": "Free", "id": ids[0], "dup": True}); c["_expect"] = "double-free"
        else:
            c["heap"] = [{"e": "Alloc", "id": 1}, {"e": "Trace", "gc": 1, "id": 1},
                         {"e": "Snapshot", "roots": [1], "edges": []},
                         {"e": "RunBegin", "gc": 1, "managed": [1], "given": [1]},
                         {"e": "Free", "id": 1, "dup": False},
                         {"e": "RunEnd", "gc": 1, "managed": []}]
            c["live_after"] = []
            c["_expect"] = "reclaimed"
        bad.append(c)
    tried = rejected = 0
    if bad:
        bf = os.path.join(wd, "corrupt.ndjson")
        core.write_ndjson(bf, bad)
        rr = core.tlc_or_die("NlHeapLedger.tla", "NlHeapLedger_sens.cfg", env={"RECS": bf}, workdir_=wd)
        byid = {b["id"]: b for b in bad}
        tried = len(bad)
        rejected = sum(1 for v in rr.verdicts if byid[v["id"]]["_expect"] in {x["class"] for x in v.get("viol", [])})
        if tried != rejected:
            raise ToolError(f"{name}: sensitivity self-test failed ({rejected}/{tried})")
    o.legs.append({"leg": name, "records": nrec, "events_checked": nev, "classes_seen": counts,
                   "sensitivity_tried": tried, "sensitivity_rejected": rejected,
                   "wall_s": round(time.time() - t0, 1)})


def check_C03(tier, seed):
    o = Outcome("C03", tier, seed, "model_checking")
    o.assumptions = [
        "the design and algorithm of the collector as stated in spec/NlGC.tla (reverse-order swap_remove sweep, idempotent array marking, recursive untrace, ownership protocol)",
        "shadow heap: a released box is quarantined under the hooks, so that a later use is observed instead of being undefined behaviour",
        "the machine's roots are taken from the machine itself at each collection point (stack, globals, constants, last value, value being returned), not from the arguments passed to the collector",
    ]
    gc_model_leg(o, tier)
    gc_replay_leg(o, C03_CLASSES, tier, seed)
    ledger_leg(o, "ledger-runs", C03_CLASSES, "runs", size(tier, 1600, 40000), seed)
    ledger_leg(o, "ledger-sessions", C03_CLASSES, "sessions", size(tier, 320, 8000), seed + 3)
    o.extra["exhaustive"] = True
    o.extra["rule"] = ("model: all operation sequences up to the bound over 3 objects (alloc / link / unroot / collect / untrace / drop / "
                       "caller-free), design and algorithm in lock step; replay: simulated behaviours of the model executed on the real "
                       "collector; ledger: heap and collector events of allocating programs validated event by event")
    return o.finish()


def check_C04(tier, seed):
    o = Outcome("C04", tier, seed, "model_checking")
    o.assumptions = [
        "as C03; additionally: after eval returns the harness releases the result graph, each distinct box once, and the ledger must be empty",
        "abort points: the run is ended with an error after exactly k dispatched instructions, for every k up to the length of the run (bounded per program), through the same `?` exit a runtime error takes",
    ]
    gc_model_leg(o, tier)
    gc_replay_leg(o, C04_CLASSES, tier, seed)
    ledger_leg(o, "ledger-runs", C04_CLASSES, "runs", size(tier, 800, 20000), seed)
    ledger_leg(o, "ledger-every-abort-point", C04_CLASSES, "aborts", size(tier, 48, 2000), seed + 5,
               max_k=size(tier, 100, 400))
    # in a retained session the results handed to the caller are not released by the recorder (a result may
    # be the value of a global that later lines still use), so "still live at the end" says nothing there;
    # what a session ledger can show for C04 is a box released twice
    ledger_leg(o, "ledger-sessions", {"double-free", "twice"}, "sessions", size(tier, 320, 8000), seed + 3)
    o.extra["exhaustive"] = True
    o.extra["rule"] = ("as C03, plus for each of a set of allocating programs one run per abort point k = 0..L (complete per program up to the bound)")
    return o.finish()


# ---------------------------------------------------------------------------
# C13 (arrays and strings), C14 (builtins)
# ---------------------------------------------------------------------------
def enum_leg(o, name, xset, shards=None):
    wd = core.workdir(f"{o.prop}_{name}")
    files = gen_files(wd, "gen-enum", ["--set", xset], shards or core.NCPU, "e")
    recs = sem_files_leg(o, name, files, wd)[:60]
    # sensitivity on this leg
    rng = random.Random(3)
    bad = [corrupt_obs(r, rng) for r in rng.sample(recs, min(10, len(recs)))]
    bf = os.path.join(wd, "corrupt.ndjson")
    core.write_ndjson(bf, bad)
    rr = core.tlc_or_die("TV_Sem.tla", "TV_Sem.cfg", env={"RECS": bf}, workdir_=wd)
    acc = [v for v in rr.verdicts if v["class"] == "agree" and not (v["rule"] == "U1")]
    if acc:
        raise ToolError(f"{name}: sensitivity self-test failed: {len(acc)} corrupted observations accepted")
    o.legs[-1]["sensitivity_tried"] = len(bad)
    o.legs[-1]["sensitivity_rejected"] = len(bad) - len(acc)
    for r in recs[:2]:
        o.samples.append({"leg": name, "obs_class": r["obs"]["class"], "nodes": len(r["nodes"])})


def check_C13(tier, seed):
    o = Outcome("C13", tier, seed, "model_checking")
    o.assumptions = [
        "NlValues.IndexGet / IndexSet (front/back indexing, character-based strings, errors leave the heap unchanged) and NlSem's reference semantics of arrays",
        "string identity (U2) is outside the documented language: writes into a text that came from a literal evaluated more than once are skipped",
    ]
    enum_leg(o, "index-family", "seq")
    # sharing: every way of making a second name for an array (declaration, assignment, literal element, index
    # assignment, parameter, result, global, loop) x every way of writing through one of the two
    directed_leg(o, "aliases", "aliases")
    sem_leg(o, "random-seq", ["--family", "seq"], size(tier, 1600, 40000), seed)
    o.extra["exhaustive"] = True
    o.extra["rule"] = ("arrays of length 0-6 and strings of 0-6 characters from 1- to 4-byte code points x every index in -(len+2)..len+2 x "
                       "read / write through an alias / write through a parameter / write through a nested alias, every value type as index "
                       "and as stored value (complete enumeration); random sequence-heavy programs beyond")
    return o.finish()


def law_files_leg(o, name, files, wd):
    t0 = time.time()
    results = run_tv_shards(files, "TV_Rel.tla", "TV_Rel.cfg", wd)
    counts = {}
    n = 0
    for f, r in zip(files, results):
        o.add_tlc(r)
        recs = {x["id"]: x for x in core.read_ndjson(f)}
        n += len(recs)
        for v in r.verdicts:
            key = v["class"] + ":" + v["rule"]
            counts[key] = counts.get(key, 0) + 1
            o.traces += 1
            if v["class"] == "mismatch":
                rec = recs[v["id"]]
                va = rec["var"]
                o.violation({"leg": name, "rule": "law:" + v["rule"], "class": va.get("class"), "kind": va.get("kind"),
                             "msg": va.get("msg"), "loc": va.get("loc"), "text": rec["var_text"]},
                            {"text": rec["var_text"], "obs": {k: va[k] for k in va if k != "out"}})
    o.legs.append({"leg": name, "records": n, "verdicts": counts, "wall_s": round(time.time() - t0, 1)})


def check_C14(tier, seed):
    o = Outcome("C14", tier, seed, "model_checking")
    o.assumptions = [
        "NlValues.CallBuiltin states the documented behaviour of the seven builtins; where the documentation fixes only the type of the result or that an error is reported, a set of error kinds is accepted",
        "text -> float is decided for plain decimals that are exact dyadic fractions; other numeric notations are DontKnow (U9); round trips are checked as laws (programs that must evaluate to ja)",
    ]
    enum_leg(o, "builtins-family", "builtins")
    wd = core.workdir("C14_roundtrip")
    shards = 8

    def gen(i):
        f = os.path.join(wd, f"rt{i}.ndjson")
        core.run_nlh(["gen-roundtrip", "--seed", seed * 77 + i, "--n", size(tier, 150, 5000) if i else 0,
                      "--first-id", i * 1000000 + 1, "--out", f])
        return f
    files = [f for f in core.parallel(gen, list(range(shards))) if os.path.getsize(f) > 0]
    law_files_leg(o, "round-trips", files, wd)
    o.extra["exhaustive"] = True
    o.extra["rule"] = ("every builtin x every value shape (null, booleans, ints, floats, numeric / padded / signed / non-numeric / non-ASCII text, "
                       "arrays, function) x 0-3 arguments, conversion chains, print with every format of up to 4 pieces from {}, {, }, a, space "
                       "x 0-4 arguments (complete enumeration); number -> text -> number laws on the integer lattice and on random finite floats")
    return o.finish()


# ---------------------------------------------------------------------------
# C07: source text denotes one tree
# ---------------------------------------------------------------------------
def tlc_vectors(spec, cfg, wd, env=None, simulate=None, extra=None):
    r = core.run_tlc(spec, cfg, env=env, workdir_=wd, simulate=simulate, extra=extra, timeout=1800)
    if r.error or r.violated:
        raise ToolError(f"{spec}: {r.error or r.violated}")
    return r


def parse_files_leg(o, name, files, wd):
    t0 = time.time()
    results = run_tv_shards(files, "TV_Parse.tla", "TV_Parse.cfg", wd)
    counts = {}
    n = 0
    good = []
    exact = undecided = 0
    for f, r in zip(files, results):
        o.add_tlc(r)
        recs = {x["id"]: x for x in core.read_ndjson(f)}
        n += len(recs)
        if len(r.verdicts) != len(recs):
            raise ToolError(f"{name}: {len(r.verdicts)} verdicts for {len(recs)} records")
        for v in r.verdicts:
            key = v["class"] + ":" + v["rule"]
            counts[key] = counts.get(key, 0) + 1
            exact += v.get("exact", 0)
            undecided += v.get("undecided", 0)
            o.traces += 1
            rec = recs[v["id"]]
            if v["class"] == "mismatch":
                o.violation({"leg": name, "rule": "parse:" + v["rule"], "style": rec["style"], "msg": rec.get("err"),
                             "text": rec["text"][:400]},
                            {"text": rec["text"], "expected_tree": rec["expect"], "parsed_tree": rec["got"], "error": rec.get("err")})
            elif len(good) < 30:
                good.append(rec)
    for r_ in good[:2]:
        o.samples.append({"leg": name, "text": r_["text"][:200], "layout_style": r_["style"]})
    tried = rejected = 0
    cand = [r_ for r_ in good if r_["got"] and r_["got"][0].get("e", {}).get("k") == "Infix"]
    if cand:
        bad = []
        for r_ in cand[:8]:
            c = copy.deepcopy(r_)
            e = c["got"][0]["e"]
            e["l"], e["r"] = e["r"], e["l"]
            if e["l"] == e["r"]:
                e["op"] = "%" if e["op"] != "%" else "+"
            bad.append(c)
        bf = os.path.join(wd, f"corrupt_{name}.ndjson")
        core.write_ndjson(bf, bad)
        rr = core.tlc_or_die("TV_Parse.tla", "TV_Parse.cfg", env={"RECS": bf}, workdir_=wd)
        tried = len(bad)
        rejected = sum(1 for v in rr.verdicts if v["class"] == "mismatch")
        if tried != rejected:
            raise ToolError(f"{name}: sensitivity self-test failed ({rejected}/{tried})")
    o.legs.append({"leg": name, "records": n, "verdicts": counts, "sensitivity_tried": tried,
                   "sensitivity_rejected": rejected, "wall_s": round(time.time() - t0, 1)})


def parseany_leg(o, name, n, seed):
    """the real parser against NlParser on arbitrary texts (TV_ParseAny)"""
    t0 = time.time()
    wd = core.workdir(f"{o.prop}_{name}")
    shards = core.nshards()

    def gen(i):
        f = os.path.join(wd, f"pa{i}.ndjson")
        core.run_nlh(["gen-parseany", "--seed", seed, "--n", n, "--shards", shards, "--shard", i,
                      "--first-id", i * 1000000 + 1, "--out", f], timeout=3000)
        return f
    files = core.parallel(gen, list(range(shards)))
    results = run_tv_shards(files, "TV_ParseAny.tla", "TV_ParseAny.cfg", wd, timeout=3000)
    counts = {}
    nrec = 0
    good = []
    for f, r in zip(files, results):
        o.add_tlc(r)
        recs = {x["id"]: x for x in core.read_ndjson(f)}
        nrec += len(recs)
        if len(r.verdicts) != len(recs):
            raise ToolError(f"{name}: {len(r.verdicts)} verdicts for {len(recs)} records")
        for v in r.verdicts:
            key = v["class"] + ":" + v["rule"]
            counts[key] = counts.get(key, 0) + 1
            o.traces += 1
            rec = recs[v["id"]]
            if v["class"] == "mismatch":
                o.violation({"leg": name, "rule": "parser:" + v["rule"], "input_kind": rec["kind"], "text": rec["text"][:300],
                             "class": "Panic" if rec.get("crashed") else None, "msg": rec.get("got_kind")},
                            {"text": rec["text"], "parser_accepts": rec["got_ok"], "parser_error_kind": rec["got_kind"],
                             "parser_tree": rec["got"]})
            elif rec["got_ok"] and len(good) < 30:
                good.append(rec)
    bad = []
    for k, r_ in enumerate(good[:10]):
        c = copy.deepcopy(r_)
        if k % 2 == 0:
            c["got_ok"] = False; c["got_kind"] = "Syntax"; c["got"] = []
        else:
            c["got"] = c["got"] + [{"k": "Break"}]
        bad.append(c)
    tried = rej = 0
    if bad:
        bf = os.path.join(wd, "corrupt.ndjson")
        core.write_ndjson(bf, bad)
        rr = core.tlc_or_die("TV_ParseAny.tla", "TV_ParseAny.cfg", env={"RECS": bf}, workdir_=wd)
        tried = len(bad)
        rej = sum(1 for v in rr.verdicts if v["class"] == "mismatch")
        if tried != rej:
            raise ToolError(f"{name}: sensitivity self-test failed ({rej}/{tried})")
    o.legs.append({"leg": name, "records": nrec, "verdicts": counts, "sensitivity_tried": tried, "sensitivity_rejected": rej,
                   "wall_s": round(time.time() - t0, 1)})


def check_C07(tier, seed):
    o = Outcome("C07", tier, seed, "model_checking")
    o.assumptions = [
        "the precedence table, associativity, else-if nesting, op-assignment desugaring and the printed form (Unparse) of spec/NlGrammar.tla",
        "layouts (separators from the interpreter's eleven white-space code points, line comments, redundant parentheses around literals, dropped optional `;`, no separator where maximal munch allows) are applied by the harness to the token list the specification prints",
        "the parser's tree is read through the hook `verif::ast_json` (a projection of the tree returned by the public parse)",
    ]
    wd = core.workdir("C07_vectors")
    fams = ["pairs", "opassign", "statements"] + (["triples"] if tier == "thorough" else [])
    vecs = []
    for fam in fams:
        r = tlc_vectors("MC_Grammar.tla", "MC_Grammar.cfg", wd, env={"FAMILY": fam})
        o.add_tlc(r)
        vecs += r.vecs
    if tier == "quick":
        # a seeded sample of the operator triples on top of the complete pairs
        r = tlc_vectors("MC_Grammar.tla", "MC_Grammar.cfg", wd, env={"FAMILY": "triples"})
        o.add_tlc(r)
        rng = random.Random(seed)
        vecs += rng.sample(r.vecs, min(1500, len(r.vecs)))
    shards = core.nshards()
    files = []
    for k in range(shards):
        f = os.path.join(wd, f"vec{k}.ndjson")
        core.write_ndjson(f, vecs[k::shards])
        files.append(f)

    def rep(k):
        out = os.path.join(wd, f"prs{k}.ndjson")
        core.run_nlh(["replay-parse", "--in", files[k], "--out", out, "--seed", seed * 13 + k,
                      "--layouts", size(tier, 4, 16), "--first-id", k * 1000000 + 1])
        return out
    reps = core.parallel(rep, list(range(shards)))
    parse_files_leg(o, "enumerated-trees", reps, wd)
    wd2 = core.workdir("C07_random")
    n = size(tier, 2400, 60000)

    def gen(i):
        f = os.path.join(wd2, f"g{i}.ndjson")
        core.run_nlh(["gen-parse", "--seed", seed * 17 + i, "--n", n // shards, "--first-id", i * 1000000 + 1, "--out", f])
        return f
    gfiles = core.parallel(gen, list(range(shards)))
    parse_files_leg(o, "random-statement-trees", gfiles, wd2)
    parseany_leg(o, "any-text-vs-specified-parser", size(tier, 4000, 120000), seed)
    # M1: the specified parser inverts the specified printer on the enumerated families
    t1 = time.time()
    wd3 = core.workdir("C07_roundtrip")
    fams3 = ["pairs", "statements"] + (["triples"] if tier == "thorough" else [])
    for fam in fams3:
        r = core.run_tlc("MC_ParseRoundTrip.tla", "MC_ParseRoundTrip.cfg", env={"FAMILY": fam}, workdir_=wd3, workers=4, timeout=3000)
        if r.error or r.violated:
            raise ToolError(f"Parse(Unparse(t)) = t fails in the specification itself ({fam}): {r.error or r.violated}")
        o.add_tlc(r)
    o.legs.append({"leg": "spec-roundtrip", "families": fams3, "wall_s": round(time.time() - t1, 1)})
    o.extra["exhaustive"] = True
    o.extra["vectors_from_spec"] = len(vecs)
    o.extra["rule"] = ("trees enumerated by TLC from NlGrammar: every ordered pair of the 13 binary operators in both nestings, prefix / call / "
                       "index / assignment against every operator, op-assignment and else-if shapes (complete), operator triples in all five "
                       "shapes (complete in the thorough tier, sampled in the quick tier); each printed by the specification and rendered under "
                       "several layouts; random statement-level trees beyond")
    return o.finish()


# ---------------------------------------------------------------------------
# C08: tokenisation and literals
# ---------------------------------------------------------------------------
def check_C08(tier, seed):
    o = Outcome("C08", tier, seed, "model_checking")
    o.assumptions = [
        "spec/NlLexer.tla: maximal munch, whole-word keywords, identifier / number spelling, the eleven white-space code points, line comments, escape-aware scan to the closing quote, Decode of the four escapes",
        "for code points beyond ASCII the alphabetic / alphanumeric class is supplied by the recorder from Rust's char predicates (the ones the implementation uses)",
        "token kinds and spellings are read from the Debug rendering of the token stream (hook verif::tokens); decoded strings from the tree of the public parse",
    ]
    wd = core.workdir("C08_lex")
    shards = core.nshards()

    def gen(i):
        f = os.path.join(wd, f"lex{i}.ndjson")
        core.run_nlh(["gen-lex", "--seed", seed, "--n", size(tier, 6000, 400000), "--shards", shards, "--shard", i,
                      "--first-id", i * 1000000 + 1, "--out", f])
        return f
    files = core.parallel(gen, list(range(shards)))
    t0 = time.time()
    results = run_tv_shards(files, "TV_Lex.tla", "TV_Lex.cfg", wd)
    counts = {}
    n = 0
    good = []
    for f, r in zip(files, results):
        o.add_tlc(r)
        recs = {x["id"]: x for x in core.read_ndjson(f)}
        n += len(recs)
        if len(r.verdicts) != len(recs):
            raise ToolError(f"C08: {len(r.verdicts)} verdicts for {len(recs)} records")
        for v in r.verdicts:
            key = v["class"] + ":" + v["rule"]
            counts[key] = counts.get(key, 0) + 1
            o.traces += 1
            rec = recs[v["id"]]
            if v["class"] == "mismatch":
                o.violation({"leg": "lex", "rule": "lex:" + v["rule"], "text": rec["text"][:200],
                             "class": "Panic" if rec.get("crashed") else None},
                            {"text": rec["text"], "tokens": [(t["k"], core.text_of(t["txt"]), t["e"]) for t in rec["toks"]],
                             "final": rec["final"], "parse_ok": rec["parse_ok"], "parse_kind": rec["parse_kind"],
                             "decoded_strings": [core.text_of(x) for x in rec["strs"]]})
            elif len(good) < 40 and rec["toks"]:
                good.append(rec)
    for r_ in good[:3]:
        o.samples.append({"text": r_["text"][:80], "tokens": [(t["k"], core.text_of(t["txt"])) for t in r_["toks"]][:8]})
    bad = []
    for k, r_ in enumerate(good[:12]):
        c = copy.deepcopy(r_)
        if k % 3 == 0:
            c["toks"][0]["e"] += 1
        elif k % 3 == 1:
            c["toks"] = c["toks"][:-1]
        else:
            c["toks"][-1]["k"] = "Caret" if c["toks"][-1]["k"] != "Caret" else "Plus"
        bad.append(c)
    bf = os.path.join(wd, "corrupt.ndjson")
    core.write_ndjson(bf, bad)
    rr = core.tlc_or_die("TV_Lex.tla", "TV_Lex.cfg", env={"RECS": bf}, workdir_=wd)
    rej = sum(1 for v in rr.verdicts if v["class"] == "mismatch")
    if rej != len(bad):
        raise ToolError(f"C08: sensitivity self-test failed ({rej}/{len(bad)})")
    o.legs.append({"leg": "lex", "records": n, "verdicts": counts, "sensitivity_tried": len(bad),
                   "sensitivity_rejected": rej, "wall_s": round(time.time() - t0, 1)})
    o.extra["exhaustive"] = True
    o.extra["rule"] = ("every token of a 66-entry vocabulary (keywords, near-keywords, ASCII and non-ASCII identifiers, numbers, strings, all "
                       "operators) alone and every ordered pair with four separator choices including none; illegal characters and unclosed "
                       "strings; all string contents up to length 4 over {a, quote, backslash, n, t, brace, e-acute} written as literals and all "
                       "raw literal bodies up to length 3 (complete enumeration); random token/separator sequences beyond")
    return o.finish()


# ---------------------------------------------------------------------------
# C05: totality
# ---------------------------------------------------------------------------
def total_files_leg(o, name, files, wd):
    t0 = time.time()
    results = run_tv_shards(files, "NlTotal.tla", "NlTotal.cfg", wd)
    counts = {}
    kinds = {}
    n = 0
    for f, r in zip(files, results):
        o.add_tlc(r)
        recs = {x["id"]: x for x in core.read_ndjson(f)}
        n += len(recs)
        if len(r.verdicts) != len(recs):
            raise ToolError(f"{name}: {len(r.verdicts)} verdicts for {len(recs)} records")
        for v in r.verdicts:
            rec = recs[v["id"]]
            key = v["class"] + ":" + v["rule"]
            counts[key] = counts.get(key, 0) + 1
            kinds[rec["kind"]] = kinds.get(rec["kind"], 0) + 1
            o.traces += 1
            if v["class"] == "mismatch":
                ob = rec["obs"]
                loc = ob.get("loc")
                if not loc and ob.get("class") == "Panic":
                    # the real binary reports the panic site in its stderr text
                    m_ = re.search(r"panicked at ((?:/repo/)?src/[^:\s]+:\d+)", ob.get("msg") or "")
                    loc = m_.group(1) if m_ else None
                o.violation({"leg": name, "rule": "outcome", "class": ob.get("class"), "msg": ob.get("msg") or ob.get("site"),
                             "loc": loc, "input_kind": rec["kind"], "text": rec["text"], "status": ob.get("status"),
                             "signal": ob.get("signal")},
                            {"text": rec["text"], "input_length": rec["len"], "obs": ob})
            elif len(o.samples) < 6 and rec["kind"] not in [s_.get("input_kind") for s_ in o.samples]:
                o.samples.append({"leg": name, "input_kind": rec["kind"], "text": rec["text"][:100], "outcome": rec["obs"].get("class")})
    # sensitivity
    some = [r_ for f in files[:1] for r_ in core.read_ndjson(f)][:6]
    bad = []
    for k, r_ in enumerate(some):
        c = copy.deepcopy(r_)
        c["obs"] = [{"class": "Panic", "msg": "x"}, {"class": "Err", "kind": "Other"}, {"class": "Timeout"}][k % 3]
        bad.append(c)
    bf = os.path.join(wd, f"corrupt_{name}.ndjson")
    core.write_ndjson(bf, bad)
    rr = core.tlc_or_die("NlTotal.tla", "NlTotal.cfg", env={"RECS": bf}, workdir_=wd)
    rej = sum(1 for v in rr.verdicts if v["class"] == "mismatch")
    if rej != len(bad):
        raise ToolError(f"{name}: sensitivity self-test failed ({rej}/{len(bad)})")
    o.legs.append({"leg": name, "records": n, "outcomes": counts, "input_kinds": kinds, "sensitivity_tried": len(bad),
                   "sensitivity_rejected": rej, "wall_s": round(time.time() - t0, 1)})


def check_C05(tier, seed):
    o = Outcome("C05", tier, seed, "model_checking")
    o.assumptions = [
        "inputs are evaluated in an isolated worker process under a wall-clock limit, an address-space limit and an instruction budget; a panic, signal or hang of the worker is an observation",
        "a run cut short by the instruction budget is admissible only if the reference semantics on the same tree is itself still running (a loop or recursion the program spells out)",
        "eval takes a &str: truncations are taken at character boundaries; invalid UTF-8 reaches only the binary's file mode",
    ]
    wd = core.workdir("C05_eval")
    shards = core.nshards()
    n = size(tier, 6000, 400000)

    def gen(i):
        f = os.path.join(wd, f"tot{i}.ndjson")
        core.run_nlh(["gen-total", "--seed", seed, "--n", n, "--shards", shards, "--shard", i,
                      "--first-id", i * 1000000 + 1, "--out", f], timeout=3000)
        return f
    files = core.parallel(gen, list(range(shards)))
    total_files_leg(o, "eval-outcomes", files, wd)
    sems = [f + ".sem" for f in files if os.path.getsize(f + ".sem") > 0]
    sem_files_leg(o, "budget-and-sample-vs-semantics", sems, wd)
    # the real binary, file mode and prompt
    wd2 = core.workdir("C05_binary")
    nb = core.build_binary()
    bf = os.path.join(wd2, "bin.ndjson")
    core.run_nlh(["gen-binary", "--seed", seed, "--n", size(tier, 60, 1500), "--bin", nb,
                  "--dir", os.path.join(wd2, "inputs"), "--out", bf], timeout=3000)
    total_files_leg(o, "binary-outcomes", [bf], wd2)
    o.extra["rule"] = ("a directed boundary corpus (huge literals, zero divisors, wrong arity, misplaced antwoord/stop, self-referential initialisers, "
                       "non-ASCII indexing, cyclic structures, truncated constructs, deep nesting, programs beyond the 16-bit limits), token edits and "
                       "truncations of generated programs, random token sequences and Unicode noise; a sample run through the real binary")
    return o.finish()


# ---------------------------------------------------------------------------
# C15: the value encoding
# ---------------------------------------------------------------------------
def apalache(spec, inv, wd, cwd=None, timeout=900):
    p = core.subprocess.run(["apalache-mc", "check", "--init=Init", "--next=Next", f"--inv={inv}", "--length=0",
                             f"--out-dir={os.path.join(wd, 'apalache')}", spec],
                            cwd=cwd or core.SPEC, capture_output=True, text=True, timeout=timeout)
    out = p.stdout + p.stderr
    if "The outcome is: NoError" in out:
        res = "NoError"
    elif "The outcome is: Error" in out:
        res = "Error"
    else:
        raise ToolError("apalache: " + out[-1500:])
    holds = len(core.re.findall(r"state invariant \d+ holds", out))
    return res, holds


def check_C15(tier, seed):
    o = Outcome("C15", tier, seed, "model_checking")
    o.assumptions = [
        "the encoding scheme as stated in spec/NlEnc.tla (tag in the low 3 bits; ints and function descriptors shifted left by 3; arithmetic shift to decode; heap boxes 8-aligned)",
        "Apalache's SMT encoding of integer arithmetic for the W = 64 instance (spec/NlEncApa.tla); TLC for the exhaustive small-width instances",
        "raw words are read through the hook Object::raw_bits; heap constructors are driven through the re-exported collector type",
    ]
    t0 = time.time()
    wd = core.workdir("C15_model")
    for w in (8, 11):
        r = core.run_tlc("MC_NlEnc.tla", f"MC_NlEnc_w{w}.cfg", workdir_=wd, timeout=900)
        if r.error or not r.ok:
            raise ToolError(f"NlEnc W={w}: {r.error or r.raw[-800:]}")
        o.add_tlc(r)
    res, holds = apalache("NlEncApa.tla", "Laws", wd)
    if res != "NoError":
        raise ToolError("the encoding laws do not hold at W = 64 (specification error): see " + wd)
    # non-vacuity: ordering the words as UNSIGNED numbers (what the tree did before the fix) is refuted
    src = open(os.path.join(core.SPEC, "NlEncApa.tla")).read()
    dev = src.replace("(Signed(EncInt(v)) < Signed(EncInt(u))) <=> (v < u)", "(EncInt(v) < EncInt(u)) <=> (v < u)") \
             .replace("MODULE NlEncApa", "MODULE NlEncApaDev")
    open(os.path.join(wd, "NlEncApaDev.tla"), "w").write(dev)
    res2, _ = apalache("NlEncApaDev.tla", "Laws", wd, cwd=wd)
    if res2 != "Error":
        raise ToolError("non-vacuity: the unsigned-ordering deviation is not refuted")
    o.legs.append({"leg": "laws", "tlc_widths": [8, 11], "apalache_w64": res, "apalache_invariants_hold": holds,
                   "deviation_refuted": True, "wall_s": round(time.time() - t0, 1)})
    o.extra["obligations"] = holds
    o.extra["discharged"] = holds
    # binding to the real Object
    t1 = time.time()
    wd2 = core.workdir("C15_binding")
    shards = 8

    def gen(i):
        f = os.path.join(wd2, f"enc{i}.ndjson")
        core.run_nlh(["gen-enc", "--seed", seed, "--n", size(tier, 1600, 40000), "--shards", shards, "--shard", i,
                      "--lattice", size(tier, "quick", "full"), "--eq-sample", size(tier, 200, 200),
                      "--first-id", i * 10000000 + 1, "--out", f])
        return f
    files = core.parallel(gen, list(range(shards)))
    results = run_tv_shards(files, "TV_Enc.tla", "TV_Enc.cfg", wd2)
    counts = {}
    n = 0
    good = []
    for f, r in zip(files, results):
        o.add_tlc(r)
        recs = {x["id"]: x for x in core.read_ndjson(f)}
        n += len(recs)
        if len(r.verdicts) != len(recs):
            raise ToolError(f"C15: {len(r.verdicts)} verdicts for {len(recs)} records")
        for v in r.verdicts:
            key = v["class"] + ":" + v["rule"]
            counts[key] = counts.get(key, 0) + 1
            o.traces += 1
            rec = recs[v["id"]]
            if v["class"] == "mismatch":
                o.violation({"leg": "binding", "rule": "enc:" + v["rule"], "record": {k: rec[k] for k in list(rec)[:8]}}, {"record": rec})
            elif len(good) < 60 and rec["k"] in ("int", "fn", "float", "str"):
                good.append(rec)
    for r_ in good[:3]:
        o.samples.append({"leg": "binding", "record": r_})
    bad = []
    for k, r_ in enumerate(good[:12]):
        c = copy.deepcopy(r_)
        if c["k"] in ("int", "fn"):
            c["word"]["mag"] = [c["word"]["mag"][0] ^ 8] + c["word"]["mag"][1:] if c["word"]["mag"] else [8]
        elif c["k"] == "float":
            c["dec_bits"] = [c["dec_bits"][0] ^ 1] + c["dec_bits"][1:]
        else:
            c["dec_cp"] = c["dec_cp"] + [65]
        bad.append(c)
    bf = os.path.join(wd2, "corrupt.ndjson")
    core.write_ndjson(bf, bad)
    rr = core.tlc_or_die("TV_Enc.tla", "TV_Enc.cfg", env={"RECS": bf}, workdir_=wd2)
    rej = sum(1 for v in rr.verdicts if v["class"] == "mismatch")
    if rej != len(bad):
        raise ToolError(f"C15: sensitivity self-test failed ({rej}/{len(bad)})")
    o.legs.append({"leg": "binding", "records": n, "verdicts": counts, "sensitivity_tried": len(bad),
                   "sensitivity_rejected": rej, "wall_s": round(time.time() - t1, 1)})
    o.extra["exhaustive"] = True
    o.extra["rule"] = ("laws: exhaustive at word widths 8 and 11 (TLC), symbolic at width 64 over all 2^61 integers and all 2^48 function "
                       "descriptors (Apalache); binding: lattice and random integers, the complete cross product of a boundary set of "
                       "(offset, count) pairs, random float bit patterns incl. NaNs / signed zeros / subnormals, random UTF-8, random nested "
                       "arrays, and the complete cross product of a 200-value sample for equality")
    return o.finish()


# ---------------------------------------------------------------------------
# C16: evaluation is a pure function of the text
# ---------------------------------------------------------------------------
def check_C16(tier, seed):
    o = Outcome("C16", tier, seed, "model_checking")
    o.assumptions = [
        "spec/NlPure.tla: a call of program p can only finish with Baseline[p], the observation of a fresh process; histories are recorded by the harness (TLC can not steer the OS scheduler: the thread schedules explored are the ones sampled)",
        "the release context is the same harness and interpreter built with the release profile (optimised, no overflow checks, no debug assertions); hooks are on in both",
        "print buffers and instruction budgets are per thread; the shadow heap is process-wide",
    ]
    core.build(release=True)
    wd = core.workdir("C16_histories")
    groups = size(tier, 16, 96)
    n = size(tier, 60, 150)

    def one(g):
        s_ = seed * 41 + g
        base = os.path.join(wd, f"base{g}.json")
        core.run_nlh(["gen-pure", "--ctx", "baseline", "--seed", s_, "--n", n, "--out", base], timeout=1800)
        outs = []
        for k, ctx in enumerate(("order", "threads", "release")):
            f = os.path.join(wd, f"h{g}_{ctx}.ndjson")
            core.run_nlh(["gen-pure", "--ctx", ctx, "--seed", s_, "--n", n, "--base", base, "--first-id", g * 10 + k + 1,
                          "--out", f], timeout=1800, release=(ctx == "release"))
            outs.append(f)
        return outs
    files = [f for fs in core.parallel(one, list(range(groups)), workers=8) for f in fs]
    t0 = time.time()
    results = run_tv_shards(files, "NlPure.tla", "NlPure.cfg", wd)
    counts = {}
    nev = 0
    good = []
    for f, r in zip(files, results):
        o.add_tlc(r)
        recs = {x["id"]: x for x in core.read_ndjson(f)}
        for v in r.verdicts:
            key = v["class"] + ":" + v["rule"]
            counts[key] = counts.get(key, 0) + 1
            nev += v.get("events", 0)
            o.traces += v.get("events", 0)
            rec = recs[v["id"]]
            if v["class"] == "mismatch":
                g = os.path.basename(f).split("_")[0][1:]
                texts = json.load(open(os.path.join(wd, f"base{g}.json")))["texts"]
                for x in v["viol"][:3]:
                    e = rec["events"][x["at"] - 1]
                    o.violation({"leg": "histories", "rule": "pure:" + x["class"], "context": rec["ctx"], "class": e["obs"].get("class"),
                                 "msg": e["obs"].get("msg"), "text": texts[e["p"] - 1][:300]},
                                {"context": rec["ctx"], "event": e, "baseline": rec["base"][e["p"] - 1], "text": texts[e["p"] - 1]})
            else:
                good.append(rec)
    if good:
        o.samples.append({"context": good[0]["ctx"], "events": [[e["t"], e["seq"], e["p"], e["obs"]["class"]] for e in good[0]["events"][:12]]})
    bad = []
    for r_ in good[:6]:
        c = copy.deepcopy(r_)
        e = c["events"][len(c["events"]) // 2]
        e["obs"]["out"] = e["obs"]["out"] + [33]
        bad.append(c)
    bf = os.path.join(wd, "corrupt.ndjson")
    core.write_ndjson(bf, bad)
    rr = core.tlc_or_die("NlPure.tla", "NlPure.cfg", env={"RECS": bf}, workdir_=wd)
    rej = sum(1 for v in rr.verdicts if v["class"] == "mismatch")
    if rej != len(bad):
        raise ToolError(f"C16: sensitivity self-test failed ({rej}/{len(bad)})")
    o.legs.append({"leg": "histories", "histories": len(files), "events": nev, "verdicts": counts, "sensitivity_tried": len(bad),
                   "sensitivity_rejected": rej, "wall_s": round(time.time() - t0, 1)})
    o.extra["rule"] = ("batches of generated programs: each once in a fresh process (baseline), then in random order with repetitions in one "
                       "process, concurrently from 16 threads with seeded per-thread orders, and by a release build; every finished call validated")
    return o.finish()


# ---------------------------------------------------------------------------
# C17: a retained session
# ---------------------------------------------------------------------------
def check_C17(tier, seed):
    o = Outcome("C17", tier, seed, "model_checking")
    o.assumptions = [
        "the session law: line i of a session on one retained (Compiler, VM) pair behaves like the LAST line of the single program made of everything earlier lines completed -- decided by the reference semantics NlSem on the concatenated program",
        "functions do not survive the line that defines them (the repository's own ignored test documents that); generated sessions use a function only inside its defining line",
        "a line cut short after k instructions: which assignments completed is not observable directly; spec/NlSession.tla keeps the set of possible persistent states and later lines narrow it",
    ]
    # every session is also typed into the real executable's prompt (no hooks): what it wrote for each line is part of
    # the line's record (`shown`) and is decided by TV_Sem's prompt rule together with the line's value
    nlbin = core.build_binary()
    # all sessions of up to three lines over the 12-line alphabet
    wd = core.workdir("C17_alphabet")
    files = gen_files(wd, "gen-session-alphabet", ["--bin", nlbin], core.NCPU, "al")
    sem_files_leg(o, "alphabet-sessions", files, wd)
    # all sessions of up to three lines over a second alphabet of ten lines about heap values: globals that hold them,
    # aliases between globals, values stored into an array of an earlier line, collections in between
    wdh = core.workdir("C17_heap_alphabet")
    hfiles = gen_files(wdh, "gen-session-alphabet", ["--set", "heap", "--bin", nlbin], core.NCPU, "ah")
    sem_files_leg(o, "heap-alphabet-sessions", hfiles, wdh)
    # random sessions of up to 12 lines with failing lines of every class
    wd2 = core.workdir("C17_random")
    n = size(tier, 640, 16000)
    shards = core.nshards()

    def gen(i):
        f = os.path.join(wd2, f"s{i}.ndjson")
        core.run_nlh(["gen-session", "--seed", seed * 19 + i, "--n", n // shards, "--first-id", i * 1000000 + 1, "--out", f, "--bin", nlbin])
        return f
    sfiles = core.parallel(gen, list(range(shards)))
    allrecs = sem_files_leg(o, "random-sessions", sfiles, wd2)
    recs = allrecs[:80]
    # sensitivity of the session legs
    rng = random.Random(seed)
    bad = [corrupt_obs(r, rng) for r in rng.sample(recs, min(10, len(recs)))]
    bf = os.path.join(wd2, "corrupt.ndjson")
    core.write_ndjson(bf, bad)
    rr = core.tlc_or_die("TV_Sem.tla", "TV_Sem.cfg", env={"RECS": bf}, workdir_=wd2)
    acc = [v for v in rr.verdicts if v["class"] == "agree" and v["rule"] != "U1"]
    if acc:
        raise ToolError(f"C17: sensitivity self-test failed: {len(acc)} corrupted line observations accepted")
    o.legs[-1]["sensitivity_tried"] = len(bad)
    o.legs[-1]["sensitivity_rejected"] = len(bad) - len(acc)
    # ... and of the prompt rule: one character of what the executable wrote is changed / the value line is dropped
    nulls = [r for r in allrecs if r["obs"].get("class") == "Value" and r["obs"].get("shown") == []][:12]
    shown = [r for r in allrecs if r["obs"].get("shown")][:24]
    if not shown:
        # the executable shows no recognisable prompt (nothing, or something that changes from run to run): the sessions
        # are decided on the retained (Compiler, VM) pair alone, as the property states it; said in the evidence
        o.extra["prompt_binding"] = "the executable's prompt could not be recognised: no session line was bound to it"
    if shown:
        # (only lines whose value the documentation fixes are decided by the prompt rule: keep those)
        cf = os.path.join(wd2, "prompt_candidates.ndjson")
        core.write_ndjson(cf, shown + nulls)
        rc_ = core.tlc_or_die("TV_Sem.tla", "TV_Sem.cfg", env={"RECS": cf}, workdir_=wd2)
        decided = {v["id"] for v in rc_.verdicts if v["class"] == "agree" and v["rule"] in ("value", "error")}
        shown = [r for r in shown if r["id"] in decided]
        badp = []
        for k, r_ in enumerate(shown[:8]):
            c = copy.deepcopy(r_)
            if c["obs"].get("class") == "Err":
                # the report of the error is missing: only what the line printed is there
                c["obs"]["shown"] = c["obs"]["out"][c["obs"]["shown_from"]:]
            elif k % 2:
                c["obs"]["shown"][0] += 1
            else:
                c["obs"]["shown"] = c["obs"]["shown"][:-1]
            badp.append(c)
        for r_ in [r for r in nulls if r["id"] in decided][:2]:
            c = copy.deepcopy(r_)
            c["obs"]["shown"] = [48, 10]                          # a prompt that shows a value the line does not have
            badp.append(c)
        bfp = os.path.join(wd2, "corrupt_prompt.ndjson")
        core.write_ndjson(bfp, badp)
        rp = core.tlc_or_die("TV_Sem.tla", "TV_Sem.cfg", env={"RECS": bfp}, workdir_=wd2)
        accp = [v for v in rp.verdicts if v["class"] != "mismatch" or v["rule"] != "prompt"]
        if accp:
            raise ToolError(f"C17: prompt sensitivity self-test failed: {len(accp)} of {len(badp)} corrupted transcripts not rejected by the prompt rule")
        o.legs[-1]["prompt_sensitivity_tried"] = len(badp)
        o.legs[-1]["prompt_sensitivity_rejected"] = len(badp)
    # lines cut short after k instructions, for every k (NlSession)
    t0 = time.time()
    wd3 = core.workdir("C17_abort")

    def gen3(i):
        f = os.path.join(wd3, f"a{i}.ndjson")
        core.run_nlh(["gen-session-abort", "--seed", seed * 23 + i, "--n", size(tier, 4, 60), "--first-id", i * 1000000 + 1, "--out", f])
        return f
    afiles = core.parallel(gen3, list(range(8)))
    results = run_tv_shards(afiles, "NlSession.tla", "NlSession.cfg", wd3)
    counts = {}
    n3 = 0
    good = []
    for f, r in zip(afiles, results):
        if r.violated:
            raise ToolError(f"NlSession internal invariant {r.violated} violated")
        o.add_tlc(r)
        recs3 = {x["id"]: x for x in core.read_ndjson(f)}
        n3 += len(recs3)
        for v in r.verdicts:
            key = v["class"] + ":" + v["rule"]
            counts[key] = counts.get(key, 0) + 1
            o.traces += 1
            rec = recs3[v["id"]]
            if v["class"] == "mismatch":
                o.violation({"leg": "abort-every-k", "rule": "session:" + v["rule"], "k": rec["k"],
                             "text": " | ".join(t["text"] for t in rec["texts"])[:300]},
                            {"lines": rec["texts"], "abort_after": rec["k"], "observed": rec["obs"], "viol": v["viol"]})
            elif len(good) < 20:
                good.append(rec)
    if good:
        o.samples.append({"leg": "abort-every-k", "lines": [t["text"] for t in good[0]["texts"]], "abort_after": good[0]["k"]})
    bad3 = []
    for r_ in good[:8]:
        c = copy.deepcopy(r_)
        # the state shown after the cut-short line is one no prefix of the assignments can produce
        for j, l in enumerate(c["lines"]):
            if l["k"] == "show":
                c["obs"][j]["val"] = [x + 7 for x in c["obs"][j]["val"]]
                break
        bad3.append(c)
    bf3 = os.path.join(wd3, "corrupt.ndjson")
    core.write_ndjson(bf3, bad3)
    rr3 = core.tlc_or_die("NlSession.tla", "NlSession.cfg", env={"RECS": bf3}, workdir_=wd3)
    rej3 = sum(1 for v in rr3.verdicts if v["class"] == "mismatch")
    if rej3 != len(bad3):
        raise ToolError(f"C17 abort leg: sensitivity self-test failed ({rej3}/{len(bad3)})")
    o.legs.append({"leg": "abort-every-k", "sessions": n3, "verdicts": counts, "sensitivity_tried": len(bad3),
                   "sensitivity_rejected": rej3, "wall_s": round(time.time() - t0, 1)})
    o.extra["exhaustive"] = True
    o.extra["rule"] = ("all 1 884 sessions of up to three lines over a 12-line alphabet (declarations, assignments, expressions, output, a loop, "
                       "re-declaration, a line that does not parse, one that does not compile, one that fails at run time after an assignment); "
                       "random sessions of 2-12 lines with failing lines of every class at every statement position; sessions whose increment line "
                       "is cut short after k instructions for every k")
    return o.finish()


# ---------------------------------------------------------------------------
# C06: operators, exact over the whole range
# ---------------------------------------------------------------------------
def corrupt_big(rec, k):
    r = copy.deepcopy(rec)
    ops = ["+", "-", "*", "<", "==", ">=", "!="]
    op = ops[k % len(ops)]
    f = k % 3
    o = r["obs"][op][f]
    if o["c"] == "I":
        o["mag"] = ([o["mag"][0] ^ 1] + o["mag"][1:]) if o["mag"] else [1]
    elif o["c"] == "B":
        o["v"] = not o["v"]
    elif o["c"] == "E":
        r["obs"][op][f] = {"c": "I", "neg": False, "mag": [1]}
    else:
        return None
    r["_corruption"] = f"{op}/{f}"
    return r


def big_leg(o, name, lattice, nrandom, seed, timeout=2400):
    t0 = time.time()
    shards = core.nshards()
    wd = core.workdir(f"{o.prop}_{name}")

    def gen(i):
        f = os.path.join(wd, f"big{i}.ndjson")
        core.run_nlh(["gen-big", "--lattice", lattice, "--shards", shards, "--shard", i, "--seed", seed,
                      "--random", nrandom // shards, "--first-id", i * 10000000 + 1, "--out", f])
        return f
    files = core.parallel(gen, list(range(shards)))
    results = run_tv_shards(files, "TV_Big.tla", "TV_Big.cfg", wd, timeout=timeout)
    nrec = 0
    counts = {}
    agreeing = []
    for f, r in zip(files, results):
        o.add_tlc(r)
        recs = {x["id"]: x for x in core.read_ndjson(f)}
        nrec += len(recs)
        if len(r.verdicts) != len(recs):
            raise ToolError(f"{name}: {len(r.verdicts)} verdicts for {len(recs)} records")
        for v in r.verdicts:
            key = v["class"] + ":" + v["rule"]
            counts[key] = counts.get(key, 0) + 1
            rec = recs[v["id"]]
            o.traces += 1
            if v["class"] == "mismatch":
                for (op, form) in v["wrong"][:4]:
                    ob = rec["obs"][op][form - 1]
                    forms = (["-a on the operand's spelling", "-x on a parameter", "-v on a global"] if op == "neg" else
                             ["literal op literal", "variable op literal (in function)", "literal op variable (in function)"])
                    sig = {"leg": name, "rule": "operator", "op": op, "form": forms[form - 1],
                           "a": rec["at"], "b": rec["bt"], "observed": ob,
                           "class": {"E": "Err", "X": "Panic"}.get(ob.get("c"), "Value"),
                           "msg": ob.get("what"), "loc": ob.get("loc")}
                    o.violation(sig, {"a": rec["at"], "b": rec["bt"], "op": op, "form": forms[form - 1],
                                      "observed": ob, "record_file": f, "id": v["id"],
                                      "spec_module": "TV_Big.tla", "cfg": "TV_Big.cfg"})
            else:
                if len(agreeing) < 200:
                    agreeing.append(rec)
    for r in agreeing[:3]:
        o.samples.append({"leg": name, "a": r["at"], "b": r["bt"], "observed_mul": r["obs"]["*"], "observed_lt": r["obs"]["<"]})
    tried = rejected = 0
    if agreeing:
        rng = random.Random(seed)
        bad = [c for c in (corrupt_big(r, k) for k, r in enumerate(rng.sample(agreeing, min(14, len(agreeing))))) if c]
        bf = os.path.join(wd, "corrupt.ndjson")
        core.write_ndjson(bf, bad)
        rr = core.tlc_or_die("TV_Big.tla", "TV_Big.cfg", env={"RECS": bf}, workdir_=wd)
        tried = len(bad)
        rejected = sum(1 for v in rr.verdicts if v["class"] == "mismatch")
        if tried != rejected:
            raise ToolError(f"{name}: sensitivity self-test failed ({rejected}/{tried} corrupted records rejected)")
    o.legs.append({"leg": name, "pairs": nrec, "evaluations": nrec * 33, "verdicts": counts,
                   "sensitivity_tried": tried, "sensitivity_rejected": rejected,
                   "wall_s": round(time.time() - t0, 1)})


def float_leg(o, name, extra, seed, family="lattice", rounding=0):
    t0 = time.time()
    wd = core.workdir(f"{o.prop}_{name}")
    shards = core.nshards()
    files = gen_files(wd, "gen-float", ["--seed", seed, "--extra", extra, "--family", family, "--rounding", rounding], shards, "fl")
    results = run_tv_shards(files, "TV_Float.tla", "TV_Float.cfg", wd)
    counts = {}
    n = 0
    good = []
    exact = undecided = 0
    for f, r in zip(files, results):
        o.add_tlc(r)
        recs = {x["id"]: x for x in core.read_ndjson(f)}
        n += len(recs)
        if len(r.verdicts) != len(recs):
            raise ToolError(f"{name}: {len(r.verdicts)} verdicts for {len(recs)} records")
        for v in r.verdicts:
            key = v["class"] + ":" + v["rule"]
            counts[key] = counts.get(key, 0) + 1
            exact += v.get("exact", 0)
            undecided += v.get("undecided", 0)
            o.traces += 1
            rec = recs[v["id"]]
            if v["class"] == "mismatch":
                for (op, form) in v["wrong"][:3]:
                    if op == "spelling":
                        ob = dict(rec["spellings"][form - 1]["obs"], text=rec["spellings"][form - 1]["text"])
                    else:
                        ob = rec["lit"][form - 1] if op == "literal" else (rec["cmp"].get(op) or rec["ar"].get(op))[form - 1]
                    o.violation({"leg": name, "rule": "float-operator", "op": op, "form": form, "a": rec["at"], "b": rec["bt"],
                                 "observed": ob, "class": {"E": "Err", "X": "Panic"}.get(ob.get("c"), "Value"),
                                 "msg": ob.get("what"), "loc": ob.get("loc")},
                                {"a": rec["at"], "b": rec["bt"], "op": op, "form": form, "observed": ob})
            elif len(good) < 400:
                good.append(rec)
    for r_ in good[:2]:
        o.samples.append({"leg": name, "a": r_["at"], "b": r_["bt"], "lt": r_["cmp"]["<"], "div": r_["ar"]["/"]})
    bad = []
    for k, r_ in enumerate(good[:10]):
        c = copy.deepcopy(r_)
        op = ["<", "==", ">=", "!="][k % 4]
        if c["cmp"][op][k % 3].get("c") == "B":
            c["cmp"][op][k % 3]["v"] = not c["cmp"][op][k % 3]["v"]
            bad.append(c)
    # a finite result moved to the neighbouring float (one unit in the last place) must be rejected: NlFloatArith
    # accepts only THE correctly rounded result
    nudged = 0
    for k, r_ in enumerate(good):
        if nudged >= 10:
            break
        op = ["+", "-", "*", "/", "%"][k % 5]
        obs = r_["ar"][op]
        fa, fb = r_["a"], r_["b"]
        ordinary = all(0 < x["e"] < 2047 for x in (fa, fb)) and all(x.get("c") == "F" and 0 < x["e"] < 2047 and 0 < x["l"] < 67108863 for x in obs)
        if ordinary:
            c = copy.deepcopy(r_)
            for x in c["ar"][op]:
                x["l"] += 1 if k % 2 else -1
            bad.append(c)
            nudged += 1
    tried = rej = 0
    if bad:
        bf = os.path.join(wd, "corrupt.ndjson")
        core.write_ndjson(bf, bad)
        rr = core.tlc_or_die("TV_Float.tla", "TV_Float.cfg", env={"RECS": bf}, workdir_=wd)
        tried = len(bad)
        rej = sum(1 for v in rr.verdicts if v["class"] == "mismatch")
        if tried != rej:
            raise ToolError(f"{name}: sensitivity self-test failed ({rej}/{tried})")
    o.legs.append({"leg": name, "pairs": n, "evaluations": n * 33, "verdicts": counts,
                   "results_decided_by_exact_rounding": exact - undecided, "results_undecided": undecided,
                   "sensitivity_tried": tried, "sensitivity_rejected": rej, "wall_s": round(time.time() - t0, 1)})


def check_C06(tier, seed):
    o = Outcome("C06", tier, seed, "model_checking")
    o.assumptions = [
        "integer results are compared with exact limb arithmetic (spec/NlBig.tla); quotient and remainder are verified from the observed pair (a = q*b + r, |r| < |b|, sign r = sign a)",
        "floats: every comparison of every pair is decided from the bit patterns (NlFloat); arithmetic with a special value by the IEEE rules for NaN, infinities and signed zeros (NlFloat); every other result of + - * / must be THE correctly rounded value (nearest, ties to even, overflow to infinity, gradual underflow, +0 for an exact zero sum) of the exact real result, decided on limb integers (NlFloatArith), and a remainder must satisfy a = q*b + r exactly with |r| < |b| and the sign of a (q is a recorded witness that the specification verifies)",
        "the error kind for a zero divisor / overflow is not fixed by the documentation: any error kind is accepted (U8)",
    ]
    big_leg(o, "int-lattice", size(tier, "quick", "full"), size(tier, 3200, 200000), seed)
    sem_leg(o, "ops-all-types", [], 16, seed, shards=16, gen_cmd="gen-ops-sharded", sens=10)
    # the float specification against an independent implementation of IEEE-754 (CPython's floats, when the module was
    # generated: tools/mk_float_selfcheck.py): it accepts every true result and rejects both neighbouring floats; a
    # disagreement here is an error of the specification, not a verdict about the code
    t0 = time.time()
    rs = core.tlc_or_die("MC_FloatArith.tla", "MC_FloatArith.cfg", workdir_=core.workdir("C06_float-selfcheck"), timeout=600)
    msc = re.search(r'FLOAT-SELFCHECK", (\d+), \{(.*?)\}', rs.raw)
    if not msc or msc.group(2).strip():
        raise ToolError("NlFloatArith disagrees with the recorded IEEE facts: " + (msc.group(0) if msc else rs.raw[-500:]))
    o.legs.append({"leg": "float-spec-selfcheck", "facts": int(msc.group(1)), "failing": 0, "wall_s": round(time.time() - t0, 1)})
    float_leg(o, "float-lattice", size(tier, 10, 120), seed)
    float_leg(o, "float-rounding", 0, seed, family="rounding", rounding=size(tier, 600, 12000))
    o.extra["exhaustive"] = True
    o.extra["rule"] = ("integer pairs: complete cross product of the boundary lattice (0, +-1, +-2, +-7, +-2^k, +-(2^k+-1), range ends) "
                       "x 11 operators x 3 syntactic forms, plus seeded random pairs; other types: every operator on every pair of "
                       "exemplars of all seven types in the three forms")
    return o.finish()


CHECKS = {
    "C01": check_C01,
    "C06": check_C06,
    "C07": check_C07,
    "C08": check_C08,
    "C09": check_C09,
    "C11": check_C11,
    "C12": check_C12,
    "C13": check_C13,
    "C14": check_C14,
    "C15": check_C15,
    "C16": check_C16,
    "C17": check_C17,
    "C10": check_C10,
    "C02": check_C02,
    "C03": check_C03,
    "C04": check_C04,
    "C05": check_C05,
}


def run_check(prop, tier, seed):
    core.TIER = tier
    if prop not in CHECKS:
        print("unknown property", prop)
        return 2
    core.build()
    return CHECKS[prop](tier, seed)


def replay(path):
    d = json.load(open(path))
    p = d["payload"]
    print("property:", d["property"])
    print("signature:", json.dumps(d["signature"], indent=1)[:2000])
    if "text" in p:
        print("program text:\n" + p["text"])
    if "record_file" in p and os.path.exists(p["record_file"]):
        recs = [r for r in core.read_ndjson(p["record_file"]) if r.get("id") == p.get("id")]
        if recs:
            wd = core.workdir("replay_run")
            f = os.path.join(wd, "one.ndjson")
            core.write_ndjson(f, recs)
            cfg = p.get("cfg", "TV_Sem.cfg")
            agree_cfg = cfg.replace(".cfg", "_agree.cfg")
            use = agree_cfg if os.path.exists(os.path.join(core.SPEC, agree_cfg)) else cfg
            r = core.run_tlc(p.get("spec_module", "TV_Sem.tla"), use, env={"RECS": f}, workdir_=wd)
            print(r.raw[-6000:])
            return 1 if (r.violated or any(v.get("class") == "mismatch" for v in r.verdicts)) else 0
    return 0


# ---------------------------------------------------------------------------
# The specified compiler (NlCompiler): conformance of the real one (M3, evidence) and the
# design-level refinement  NlVM o NlCompiler  refines  NlSem  (M1, no implementation output read)
# ---------------------------------------------------------------------------
def compile_conformance_leg(o, name, files, wd, timeout=1500):
    """The code the real compiler emitted for each tree against Compile(tree) of spec/NlCompiler.tla.
    A difference is model drift: reported in the evidence, never a violation (other code may mean the same;
    what the code means is decided by NlSem / NlVM on the same records)."""
    t0 = time.time()
    optab = optab_file(wd)
    ff = []
    for f in files:
        recs = [r for r in core.read_ndjson(f) if r.get("bc") is not None and r.get("nodes") is not None
                and r.get("obs", {}).get("class") not in ("Panic", "Abort", "Timeout", "Fault")]
        for r in recs:
            r.pop("steps", None)
        g = f + ".cmp"
        core.write_ndjson(g, recs)
        if recs:
            ff.append((f, g))
    results = run_tv_shards([g for _, g in ff], "TV_Compile.tla", "TV_Compile.cfg", wd, timeout=timeout, extra_env={"OPTAB": optab})
    counts = {}
    examples = []
    nrec = 0
    agreeing = []
    for (f, g), r in zip(ff, results):
        o.add_tlc(r)
        recs = {x["id"]: x for x in core.read_ndjson(g)}
        srcs = {x["id"]: x["text"] for x in core.read_ndjson(f + ".src")} if os.path.exists(f + ".src") else {}
        nrec += len(recs)
        if len(r.verdicts) != len(recs):
            raise ToolError(f"{name}: {len(r.verdicts)} verdicts for {len(recs)} records in {g}")
        for v in r.verdicts:
            key = v["class"] + ":" + v["rule"]
            counts[key] = counts.get(key, 0) + 1
            if v["class"] in ("drift", "reject") and len(examples) < 4:
                examples.append({"text": srcs.get(v["id"], "")[:300], "what": v["rule"], "at_instruction": v.get("at"),
                                 "model": v.get("model"), "real": v.get("real")})
            elif v["class"] == "agree" and v["rule"] == "code" and len(agreeing) < 40:
                agreeing.append(recs[v["id"]])
    # sensitivity: one changed operand / one swapped constant must be reported as drift
    tried = rejected = 0
    bad = []
    for k, r_ in enumerate(agreeing[:8]):
        c = copy.deepcopy(r_)
        code = c["bc"]["code"]
        if k % 2 == 0 and len(code) > 4:
            code[1] = (code[1] + 1) % 256               # the first operand byte (or opcode) of the second byte
        elif c["bc"]["consts"]:
            c["bc"]["consts"] = c["bc"]["consts"] + [{"t": "I", "v": 424242}]
        else:
            continue
        bad.append(c)
    if bad:
        bf = os.path.join(wd, f"corrupt_cmp_{name}.ndjson")
        core.write_ndjson(bf, bad)
        rr = core.tlc_or_die("TV_Compile.tla", "TV_Compile.cfg", env={"RECS": bf, "OPTAB": optab}, workdir_=wd)
        tried = len(bad)
        rejected = sum(1 for v in rr.verdicts if v["class"] in ("drift", "reject"))
        if tried != rejected:
            raise ToolError(f"{name}: sensitivity self-test failed ({rejected}/{tried})")
    ndrift = sum(n for k, n in counts.items() if not k.startswith("agree") and not k.startswith("skip"))
    o.legs.append({"leg": name, "records": nrec, "verdicts": counts,
                   "model_conformance": "ok" if ndrift == 0 else f"the real compiler's output differs from NlCompiler's in {ndrift} records",
                   "drift_examples": examples, "sensitivity_tried": tried, "sensitivity_rejected": rejected,
                   "wall_s": round(time.time() - t0, 1)})


def design_pipeline(files, wd, tag, deviation="", nfiles=None, optab=None):
    """trees of `files` -> MC_Compile -> NlBcSafe on the specified code -> MC_Refine. Returns (counts, states, examples)."""
    optab = optab or optab_file(wd)
    trees = []
    for f in files:
        for r in core.read_ndjson(f):
            if r.get("nodes") is None:
                continue
            trees.append({"id": len(trees) + 1, "nodes": r["nodes"], "root": r["root"], "fam": r.get("fam", ""),
                          "src": [os.path.basename(f), r["id"]],
                          "bc": {"code": [], "consts": []}, "obs": {"class": "None", "out": []}})
    k = max(1, min(nfiles or core.NCPU, len(trees) // 40))
    tree_files = []
    for i in range(k):
        tf = os.path.join(wd, f"{tag}{i}.tree")
        core.write_ndjson(tf, trees[i::k])
        tree_files.append(tf)
    env = {"OPTAB": optab}
    if deviation:
        env["DEVIATION"] = deviation
    ra = run_tv_shards(tree_files, "MC_Compile.tla", "MC_Compile.cfg", wd, extra_env=env)
    counts = {}
    states = 0
    examples = []
    m1_files = []
    for tf, r in zip(tree_files, ra):
        states += r.distinct
        trees = core.read_ndjson(tf)
        vec = {v["id"]: v for v in r.vecs}
        if len(vec) != len(trees):
            raise ToolError(f"MC_Compile: {len(vec)} results for {len(trees)} trees in {tf}")
        for t in trees:
            v = vec[t["id"]]
            t["bc"] = {"code": v["code"], "consts": v["consts"], "err": v["err"]}
            if not v["wellformed"]:
                counts["malformed:jumps"] = counts.get("malformed:jumps", 0) + 1
        mf = tf[:-5] + ".m1"
        core.write_ndjson(mf, trees)
        m1_files.append(mf)
    # the specified code must pass the bytecode verifier (design-level C02, and no residue: C11)
    safe_files = []
    for mf in m1_files:
        sf = mf + ".bc"
        core.write_ndjson(sf, [t for t in core.read_ndjson(mf) if t["bc"]["code"]])
        safe_files.append(sf)
    rb = run_tv_shards(safe_files, "NlBcSafe.tla", "NlBcSafe.cfg", wd, extra_env={"OPTAB": optab})
    unsafe = set()
    for sf, r in zip(safe_files, rb):
        states += r.distinct
        for v in r.verdicts:
            key = "verifier:" + v["class"]
            counts[key] = counts.get(key, 0) + 1
            if v["class"] in ("mismatch", "residue"):
                unsafe.add(v["id"])
                if len(examples) < 3:
                    examples.append({"id": v["id"], "stage": "verifier", "viol": v.get("viol", [])[:2]})
    ref_files = []
    for mf in m1_files:
        rf = mf + ".ref"
        core.write_ndjson(rf, [t for t in core.read_ndjson(mf) if t["id"] not in unsafe])
        ref_files.append(rf)
    rc = run_tv_shards(ref_files, "MC_Refine.tla", "MC_Refine.cfg", wd, extra_env={"OPTAB": optab})
    for rf, r in zip(ref_files, rc):
        states += r.distinct
        n = len(core.read_ndjson(rf))
        if len(r.verdicts) != n:
            raise ToolError(f"MC_Refine: {len(r.verdicts)} verdicts for {n} trees in {rf}")
        for v in r.verdicts:
            key = "refine:" + v["class"] + ":" + v["rule"]
            counts[key] = counts.get(key, 0) + 1
            if v["class"] == "mismatch" and len(examples) < 6:
                examples.append({"id": v["id"], "stage": "refine", "rule": v["rule"]})
    return counts, states, examples


DEVIATIONS = ["fused-any-order", "no-null", "continue-outermost"]


def design_refinement_leg(o, name, files, wd, deviation_files=None):
    """M1: on every tree of `files`, the specified machine (NlVM) running the specified compiler's code (NlCompiler)
    halts with what the reference semantics (NlSem) says the tree means, and that code passes the bytecode verifier
    (NlBcSafe). No output of the implementation is read: this is a statement about the design the three
    specifications describe; the conformance legs tie the implementation to each of them."""
    t0 = time.time()
    optab = optab_file(wd)
    counts, states, examples = design_pipeline(files, wd, "d", optab=optab)
    o.states += states
    broken = {k: n for k, n in counts.items() if k.startswith("refine:mismatch") or k.startswith("malformed")
              or k in ("verifier:mismatch", "verifier:residue")}
    if broken:
        # the three specifications disagree with one another: a defect of the model, not of the code under test
        raise ToolError(f"{name}: the specified compiler / machine / semantics disagree on the unchanged model: {broken} {examples}")
    # non-vacuity: each deliberate deviation of the translation scheme must be rejected somewhere
    def run_dev(dev):
        return design_pipeline(deviation_files or files, wd, "dev_" + dev.replace("-", "") + "_", deviation=dev, nfiles=5, optab=optab)
    caught = {}
    for dev, (c2, s2, ex2) in zip(DEVIATIONS, core.parallel(run_dev, DEVIATIONS)):
        o.states += s2
        n = sum(v for k, v in c2.items() if k.startswith("refine:mismatch") or k in ("verifier:mismatch", "verifier:residue")
                or k.startswith("malformed"))
        caught[dev] = n
        if n == 0:
            raise ToolError(f"{name}: the deviation '{dev}' of the translation scheme was not rejected on any tree (vacuous check)")
    o.legs.append({"leg": name, "trees": sum(v for k, v in counts.items() if k.startswith("refine:")) +
                   sum(v for k, v in counts.items() if k in ("verifier:mismatch", "verifier:residue")),
                   "verdicts": counts, "deviations_rejected_on_trees": caught, "wall_s": round(time.time() - t0, 1)})
