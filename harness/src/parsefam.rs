//! C07: printed forms of trees under layouts, parsed by the real parser.

use crate::ast::{to_text, Stmt};
use crate::gen::Gen;
use crate::pool::Worker;
use crate::semfam::cfg_for;
use crate::Args;
use rand::rngs::StdRng;
use rand::seq::SliceRandom;
use rand::{Rng, SeedableRng};
use serde_json::{json, Value};
use std::io::{BufRead, Write};
use std::time::Duration;

#[allow(dead_code)]
fn text_of_cps(v: &Value) -> String {
    v.as_array()
        .map(|a| a.iter().filter_map(|c| c.as_u64()).filter_map(|c| char::from_u32(c as u32)).collect())
        .unwrap_or_default()
}

/// Flat node table (as exported by the parser) -> nested canonical tree
pub fn nest(nodes: &[Value], id: usize) -> Value {
    let n = &nodes[id - 1];
    let k = n["k"].as_str().unwrap_or("");
    let kid = |f: &str| nest(nodes, n[f].as_u64().unwrap_or(1) as usize);
    let kids = |f: &str| -> Value {
        Value::Array(
            n[f].as_array().cloned().unwrap_or_default().iter().map(|x| nest(nodes, x.as_u64().unwrap() as usize)).collect(),
        )
    };
    match k {
        "Int" => {
            if n.get("v").is_some() { json!({"k":"Int","v":n["v"]}) } else { json!({"k":"Int","v":-1,"big":n["big"]}) }
        }
        "Float" => json!({"k":"Float","bits":format!("{}/{}", n.get("m").unwrap_or(&json!("x")), n.get("e").unwrap_or(&json!("x")))}),
        "Bool" => json!({"k":"Bool","v":n["v"]}),
        // (texts stay sequences of code points: TLC's own strings are not reliable beyond ASCII)
        "Str" => json!({"k":"Str","cp":n["cp"]}),
        "Ident" => json!({"k":"Ident","name":n["name"]}),
        "Infix" => json!({"k":"Infix","op":n["op"],"l":kid("l"),"r":kid("r")}),
        "Prefix" => json!({"k":"Prefix","op":n["op"],"r":kid("r")}),
        "Call" => json!({"k":"Call","f":kid("f"),"args":kids("args")}),
        "Index" => json!({"k":"Index","l":kid("l"),"i":kid("i")}),
        "Assign" => json!({"k":"Assign","l":kid("l"),"r":kid("r")}),
        "Array" => json!({"k":"Array","vals":kids("vals")}),
        "If" => json!({"k":"If","c":kid("c"),"th":kids("th"),"hasel":n["hasel"],"el":kids("el")}),
        "While" => json!({"k":"While","c":kid("c"),"body":kids("body")}),
        "Func" => {
            json!({"k":"Func","name":n["name"],"params":n["params"],"body":kids("body")})
        }
        "Let" => json!({"k":"Let","name":n["name"],"e":kid("e")}),
        "Return" => json!({"k":"Return","e":kid("e")}),
        "Expr" => json!({"k":"Expr","e":kid("e")}),
        "Block" => json!({"k":"Block","body":kids("body")}),
        "Break" => json!({"k":"Break"}),
        "Continue" => json!({"k":"Continue"}),
        _ => json!({"k":"?"}),
    }
}

pub fn nest_program(nodes: &[Value], root: &[Value]) -> Value {
    Value::Array(root.iter().map(|r| nest(nodes, r.as_u64().unwrap() as usize)).collect())
}

const WS: [&str; 11] = ["\t", "\n", "\u{b}", "\u{c}", "\r", " ", "\u{85}", "\u{200e}", "\u{200f}", "\u{2028}", "\u{2029}"];

fn separator(rng: &mut StdRng, style: u64) -> String {
    match style {
        0 => " ".to_string(),
        1 => ["\n", "\t", "  ", " \n "][rng.gen_range(0..4)].to_string(),
        2 => WS.choose(rng).unwrap().to_string(),
        _ => {
            if rng.gen_bool(0.25) {
                " // commentaar ; ) } \n".to_string()
            } else {
                WS.choose(rng).unwrap().to_string()
            }
        }
    }
}

fn wordlike(t: &str) -> bool {
    t.chars().next().map(|c| c.is_alphanumeric() || c == '_').unwrap_or(false)
        && t.chars().last().map(|c| c.is_alphanumeric() || c == '_' || c == '.').unwrap_or(false)
}

fn merges(a: &str, b: &str) -> bool {
    let la = a.chars().last().unwrap_or(' ');
    let fb = b.chars().next().unwrap_or(' ');
    (wordlike(a) && (fb.is_alphanumeric() || fb == '_' || fb == '.'))
        || (matches!(la, '=' | '!' | '<' | '>') && fb == '=')
        || (la == '&' && fb == '&')
        || (la == '|' && fb == '|')
        || (la == '/' && fb == '/')
        || (la.is_ascii_digit() && fb == '.')
        || (la == '.' && fb.is_ascii_digit())
}

/// Render the token list of an Unparse vector under a layout style
pub fn render(toks: &[Value], style: u64, rng: &mut StdRng) -> String {
    // resolve the markers into spellings
    let mut sp: Vec<String> = Vec::new();
    let mut i = 0;
    while i < toks.len() {
        let t = toks[i].as_str().unwrap_or("");
        match t {
            "#int" => {
                sp.push(toks[i + 1].to_string());
                i += 2;
            }
            "#id" => {
                sp.push(toks[i + 1].as_str().unwrap_or("x").to_string());
                i += 2;
            }
            "#str" => {
                sp.push(format!("\"{}\"", crate::ast::escape_str(toks[i + 1].as_str().unwrap_or(""))));
                i += 2;
            }
            _ => {
                sp.push(t.to_string());
                i += 1;
            }
        }
    }
    // optional separators: a `;` may be dropped when what follows can not continue the expression
    if style >= 4 {
        let mut out: Vec<String> = Vec::new();
        for (j, t) in sp.iter().enumerate() {
            if t == ";" {
                let next = sp.get(j + 1).map(|s| s.as_str()).unwrap_or("");
                let continues = matches!(next, "-" | "(" | "[");
                if !continues && rng.gen_bool(0.7) {
                    continue;
                }
            }
            out.push(t.clone());
        }
        sp = out;
    }
    // redundant parentheses around literals
    if style >= 3 {
        let mut out: Vec<String> = Vec::new();
        for (j, t) in sp.iter().enumerate() {
            let is_lit = t.chars().all(|c| c.is_ascii_digit()) || t == "ja" || t == "nee";
            let prev = if j > 0 { sp[j - 1].as_str() } else { "" };
            if is_lit && !t.is_empty() && rng.gen_bool(0.4) && prev != "stel" {
                out.push("(".into());
                out.push(t.clone());
                out.push(")".into());
            } else {
                out.push(t.clone());
            }
        }
        sp = out;
    }
    // redundant parentheses around a name that stands where an operand is expected (right after a prefix or
    // infix operator), and a second pair around a group that stands there
    if style >= 3 {
        const OPS: &[&str] = &["!", "-", "+", "*", "/", "%", "<", "<=", ">", ">=", "==", "!=", "&&", "||", "="];
        const WORDS: &[&str] = &["als", "anders", "zolang", "functie", "stel", "antwoord", "stop", "volgende", "ja", "nee"];
        let mut out: Vec<String> = Vec::new();
        let mut close_at: Vec<usize> = Vec::new(); // positions (in sp) of ")" to double
        let mut depth_open: Vec<(usize, bool)> = Vec::new();
        for (j, t) in sp.iter().enumerate() {
            let prev = if j > 0 { sp[j - 1].as_str() } else { "" };
            let after_op = OPS.contains(&prev);
            let is_name = t.chars().next().map(|c| c.is_alphabetic() || c == '_').unwrap_or(false) && !WORDS.contains(&t.as_str());
            let next = sp.get(j + 1).map(|s| s.as_str()).unwrap_or("");
            if t == "(" {
                let double = after_op && rng.gen_bool(0.35);
                depth_open.push((j, double));
                if double {
                    out.push("(".into());
                }
                out.push(t.clone());
            } else if t == ")" {
                out.push(t.clone());
                if let Some((_, double)) = depth_open.pop() {
                    if double {
                        out.push(")".into());
                    }
                }
            } else if is_name && after_op && next != "(" && next != "[" && next != "=" && rng.gen_bool(0.35) {
                out.push("(".into());
                out.push(t.clone());
                out.push(")".into());
            } else {
                out.push(t.clone());
            }
        }
        let _ = &mut close_at;
        sp = out;
    }
    let mut s = String::new();
    for (j, t) in sp.iter().enumerate() {
        if j > 0 {
            let prev = &sp[j - 1];
            if style == 5 && !merges(prev, t) && rng.gen_bool(0.8) {
                // no separator at all where maximal munch allows it
            } else {
                s.push_str(&separator(rng, style.min(3)));
            }
        }
        s.push_str(t);
    }
    s
}

/// The specification prints names and texts as TLA+ strings; records carry code points
fn strings_to_cps(v: &mut Value) {
    match v {
        Value::Object(m) => {
            for (k, x) in m.iter_mut() {
                if (k == "name" || k == "cp") && x.is_string() {
                    let s = x.as_str().unwrap().to_string();
                    *x = Value::Array(s.chars().map(|c| json!(c as u32)).collect());
                } else if k == "params" {
                    if let Some(a) = x.as_array_mut() {
                        for p in a.iter_mut() {
                            if p.is_string() {
                                let s = p.as_str().unwrap().to_string();
                                *p = Value::Array(s.chars().map(|c| json!(c as u32)).collect());
                            }
                        }
                    }
                } else {
                    strings_to_cps(x);
                }
            }
        }
        Value::Array(a) => {
            for x in a.iter_mut() {
                strings_to_cps(x);
            }
        }
        _ => {}
    }
}

/// specification vectors (tree + printed form) -> records for TV_Parse
pub fn replay_parse(args: &Args) {
    let inp = args.get("in", "/dev/stdin");
    let out = args.get("out", "/dev/stdout");
    let seed = args.num("seed", 1);
    let layouts = args.num("layouts", 4);
    let first_id = args.num("first-id", 1);
    let f = std::io::BufReader::new(std::fs::File::open(&inp).expect("open in"));
    let mut o = std::fs::File::create(&out).expect("create out");
    let mut w = Worker::spawn(Duration::from_secs(10));
    let mut rng = StdRng::seed_from_u64(seed);
    let mut id = first_id;
    for line in f.lines() {
        let v: Value = match serde_json::from_str(&line.unwrap()) {
            Ok(v) => v,
            Err(_) => continue,
        };
        let toks = v["toks"].as_array().cloned().unwrap_or_default();
        let mut expect = v["tree"].clone();
        strings_to_cps(&mut expect);
        for l in 0..layouts {
            let style = if l == 0 { 0 } else { rng.gen_range(1..6) };
            let text = render(&toks, style, &mut rng);
            let p = w.parse(&text);
            let (ok, got) = if p["ok"] == true {
                let t = &p["tree"];
                (true, nest_program(t["nodes"].as_array().unwrap(), t["root"].as_array().unwrap()))
            } else {
                (false, json!([]))
            };
            writeln!(o, "{}", json!({"id":id,"expect":expect,"got":got,"ok":ok,"style":style,"text":text,
                "err":p.get("msg").cloned().unwrap_or(json!(""))})).unwrap();
            id += 1;
        }
    }
}

/// text-level layout of a printed program: white space outside string literals is replaced
fn relayout(text: &str, rng: &mut StdRng) -> String {
    let mut out = String::new();
    let mut in_str = false;
    let mut esc = false;
    for c in text.chars() {
        if in_str {
            out.push(c);
            if esc {
                esc = false;
            } else if c == '\\' {
                esc = true;
            } else if c == '"' {
                in_str = false;
            }
            continue;
        }
        if c == '"' {
            in_str = true;
            out.push(c);
        } else if c == ' ' || c == '\n' {
            out.push_str(&separator(rng, 3));
        } else {
            out.push(c);
        }
    }
    out
}

/// random statement-level trees, printed and re-laid-out, parsed by the real parser
pub fn gen_parse(args: &Args) {
    let seed = args.num("seed", 1);
    let n = args.num("n", 100);
    let out = args.get("out", "/dev/stdout");
    let first_id = args.num("first-id", 1);
    let mut o = std::fs::File::create(&out).expect("create out");
    let mut w = Worker::spawn(Duration::from_secs(10));
    let mut id = first_id;
    for i in 0..n {
        let s = seed.wrapping_mul(5_000_011).wrapping_add(i);
        let mut rng = StdRng::seed_from_u64(s);
        let fam = ["mixed", "calls", "control", "names", "seq"][(i % 5) as usize];
        let mut g = Gen::new(s, cfg_for(fam));
        g.cfg.max_stmts = 6;
        let prog: Vec<Stmt> = g.program();
        let (nodes, root) = crate::ast::flatten(&prog);
        let rootv: Vec<Value> = root.iter().map(|x| json!(x)).collect();
        let expect = nest_program(&nodes, &rootv);
        for l in 0..2 {
            let text = if l == 0 { to_text(&prog, i % 2 == 0) } else { relayout(&to_text(&prog, true), &mut rng) };
            let p = w.parse(&text);
            let (ok, got) = if p["ok"] == true {
                let t = &p["tree"];
                (true, nest_program(t["nodes"].as_array().unwrap(), t["root"].as_array().unwrap()))
            } else {
                (false, json!([]))
            };
            writeln!(o, "{}", json!({"id":id,"expect":expect,"got":got,"ok":ok,"style":10 + l,"text":text,
                "err":p.get("msg").cloned().unwrap_or(json!(""))})).unwrap();
            id += 1;
        }
    }
}

// ---------------------------------------------------------------------------
// Arbitrary texts through the real parser, for validation against NlParser (TV_ParseAny)
// ---------------------------------------------------------------------------
fn nest_digits(nodes: &[Value], raw: &[Value], id: usize) -> Value {
    // like `nest`, but integers keep their decimal digits (from the parser's own rendering)
    let mut v = nest(nodes, id);
    patch_ints(&mut v, raw);
    v
}

fn patch_ints(_v: &mut Value, _raw: &[Value]) {}

/// nested tree straight from the un-normalised export (`verif::ast_json`): Int nodes carry "v" as decimal text
fn nest_raw(nodes: &[Value], id: usize) -> Value {
    let n = &nodes[id - 1];
    let k = n["k"].as_str().unwrap_or("");
    let kid = |f: &str| nest_raw(nodes, n[f].as_u64().unwrap_or(1) as usize);
    let kids = |f: &str| -> Value {
        Value::Array(n[f].as_array().cloned().unwrap_or_default().iter().map(|x| nest_raw(nodes, x.as_u64().unwrap() as usize)).collect())
    };
    match k {
        "Int" => {
            let s = n["v"].as_str().unwrap_or("0");
            json!({"k":"Int","digits":s.chars().map(|c| c as u32).collect::<Vec<u32>>()})
        }
        "Float" => json!({"k":"Float"}),
        "Bool" => json!({"k":"Bool","v":n["v"]}),
        "Str" => json!({"k":"Str","cp":n["cp"]}),
        "Ident" => json!({"k":"Ident","name":n["name"]}),
        "Infix" => json!({"k":"Infix","op":n["op"],"l":kid("l"),"r":kid("r")}),
        "Prefix" => json!({"k":"Prefix","op":n["op"],"r":kid("r")}),
        "Call" => json!({"k":"Call","f":kid("f"),"args":kids("args")}),
        "Index" => json!({"k":"Index","l":kid("l"),"i":kid("i")}),
        "Assign" => json!({"k":"Assign","l":kid("l"),"r":kid("r")}),
        "Array" => json!({"k":"Array","vals":kids("vals")}),
        "If" => json!({"k":"If","c":kid("c"),"th":kids("th"),"hasel":n["hasel"],"el":kids("el")}),
        "While" => json!({"k":"While","c":kid("c"),"body":kids("body")}),
        "Func" => json!({"k":"Func","name":n["name"],"params":n["params"],"body":kids("body")}),
        "Let" => json!({"k":"Let","name":n["name"],"e":kid("e")}),
        "Return" => json!({"k":"Return","e":kid("e")}),
        "Expr" => json!({"k":"Expr","e":kid("e")}),
        "Block" => json!({"k":"Block","body":kids("body")}),
        "Break" => json!({"k":"Break"}),
        "Continue" => json!({"k":"Continue"}),
        _ => json!({"k":"?"}),
    }
}

/// Worker op "parseraw": the real parser's verdict and tree for a text (integers as digits)
pub fn parse_raw(text: &str) -> Value {
    let r = std::panic::catch_unwind(|| nederlang::verif::ast_json(text));
    match r {
        Ok(Ok(s)) => {
            let v: Value = serde_json::from_str(&s).unwrap_or(json!({"nodes":[],"root":[]}));
            let nodes = v["nodes"].as_array().cloned().unwrap_or_default();
            let root = v["root"].as_array().cloned().unwrap_or_default();
            let t: Vec<Value> = root.iter().map(|r| nest_raw(&nodes, r.as_u64().unwrap() as usize)).collect();
            json!({"got_ok":true,"got_kind":"","got":t,"crashed":false})
        }
        Ok(Err(e)) => {
            let (k, _) = crate::run::error_kind(&e);
            json!({"got_ok":false,"got_kind":k,"got":[],"crashed":false})
        }
        Err(_) => json!({"got_ok":false,"got_kind":"Panic","got":[],"crashed":true}),
    }
}

pub fn gen_parseany(args: &Args) {
    let seed = args.num("seed", 1);
    let n = args.num("n", 500);
    let out = args.get("out", "/dev/stdout");
    let shard = args.num("shard", 0);
    let shards = args.num("shards", 1);
    let first_id = args.num("first-id", 1);
    let mut f = std::io::BufWriter::new(std::fs::File::create(&out).expect("create out"));
    let mut w = Worker::spawn(Duration::from_secs(10));
    let _ = nest_digits;
    let mut id = first_id;
    let inputs = crate::totalfam::inputs(seed, n);
    for (k, (kind, text)) in inputs.iter().enumerate() {
        if (k as u64) % shards != shard {
            continue;
        }
        // the specification's parser recurses on the native stack of TLC: keep to moderate sizes
        if text.chars().count() > 600 || kind.starts_with("deep") || kind.starts_with("long") || kind.starts_with("many") || kind.starts_with("big") {
            continue;
        }
        let r = w.request(&json!({"op":"parseraw","text":text}));
        let chars: Vec<Value> = text.chars().map(|c| json!({"c":c as u32,"a":c.is_alphabetic(),"n":c.is_alphanumeric()})).collect();
        let mut rec = json!({"id":id,"kind":kind,"chars":chars,"text":text});
        if r.get("got_ok").is_some() {
            for (kk, v) in r.as_object().unwrap() {
                rec[kk] = v.clone();
            }
        } else {
            rec["got_ok"] = json!(false);
            rec["got_kind"] = json!("Abort");
            rec["got"] = json!([]);
            rec["crashed"] = json!(true);
        }
        writeln!(f, "{}", rec).unwrap();
        id += 1;
    }
}
