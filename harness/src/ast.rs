//! The harness's own syntax trees (generated programs), their printer and
//! their flattened JSON form (the same node-table format `nederlang::verif::ast_json`
//! produces for trees that come out of the real parser).

use serde_json::{json, Value};

#[derive(Clone, Debug, PartialEq)]
pub enum Expr {
    Int(i64),
    /// the float m / 2^e
    Float { m: i64, e: u32 },
    Bool(bool),
    Str(String),
    Ident(String),
    /// op is "-" or "!"
    Prefix(&'static str, Box<Expr>),
    Infix(&'static str, Box<Expr>, Box<Expr>),
    If {
        c: Box<Expr>,
        th: Vec<Stmt>,
        el: Option<Vec<Stmt>>,
    },
    While {
        c: Box<Expr>,
        body: Vec<Stmt>,
    },
    Func {
        name: String,
        params: Vec<String>,
        body: Vec<Stmt>,
    },
    Call {
        f: Box<Expr>,
        args: Vec<Expr>,
    },
    /// `l = r`
    Assign(Box<Expr>, Box<Expr>),
    /// `name op= r`, which the language defines as `name = name op (r)`
    OpAssign(String, &'static str, Box<Expr>),
    Array(Vec<Expr>),
    Index(Box<Expr>, Box<Expr>),
}

#[derive(Clone, Debug, PartialEq)]
pub enum Stmt {
    Let(String, Expr),
    Return(Expr),
    Expr(Expr),
    Block(Vec<Stmt>),
    Break,
    Continue,
}

pub fn b(e: Expr) -> Box<Expr> {
    Box::new(e)
}
pub fn id(s: &str) -> Expr {
    Expr::Ident(s.to_string())
}
pub fn call(f: &str, args: Vec<Expr>) -> Expr {
    Expr::Call {
        f: b(id(f)),
        args,
    }
}
pub fn infix(op: &'static str, l: Expr, r: Expr) -> Expr {
    Expr::Infix(op, b(l), b(r))
}

// ---------------------------------------------------------------------------
// Printing
// ---------------------------------------------------------------------------

/// Binding power of an infix operator, as documented (higher binds tighter)
pub fn prec(op: &str) -> u8 {
    match op {
        "=" => 1,
        "&&" | "||" => 2,
        "==" | "!=" => 3,
        "<" | "<=" | ">" | ">=" => 4,
        "+" | "-" => 5,
        "*" | "/" | "%" => 6,
        _ => 0,
    }
}

pub fn float_text(m: i64, e: u32) -> String {
    // exact decimal expansion of m / 2^e, always with a '.' so that it lexes as a float
    let neg = m < 0;
    let a = m.unsigned_abs() as u128;
    let ip = a >> e;
    let mut fr = a & ((1u128 << e) - 1);
    let mut s = String::new();
    if neg {
        s.push('-');
    }
    s.push_str(&ip.to_string());
    s.push('.');
    if e == 0 {
        s.push('0');
    } else {
        for _ in 0..e {
            fr *= 10;
            let d = fr >> e;
            fr &= (1u128 << e) - 1;
            s.push(char::from_digit(d as u32, 10).unwrap());
        }
    }
    s
}

pub fn escape_str(s: &str) -> String {
    let mut o = String::new();
    for c in s.chars() {
        match c {
            '"' => o.push_str("\\\""),
            '\\' => o.push_str("\\\\"),
            '\n' => o.push_str("\\n"),
            '\t' => o.push_str("\\t"),
            c => o.push(c),
        }
    }
    o
}

/// Printer options
#[derive(Clone, Copy)]
pub struct Style {
    /// statement separator / indentation flavour
    pub compact: bool,
}

pub struct Printer {
    pub out: String,
    pub style: Style,
    indent: usize,
}

impl Printer {
    pub fn new(style: Style) -> Self {
        Printer {
            out: String::new(),
            style,
            indent: 0,
        }
    }

    fn nl(&mut self) {
        if self.style.compact {
            self.out.push(' ');
        } else {
            self.out.push('\n');
            for _ in 0..self.indent {
                self.out.push_str("    ");
            }
        }
    }

    pub fn program(&mut self, stmts: &[Stmt]) {
        for (i, s) in stmts.iter().enumerate() {
            if i > 0 {
                self.nl();
            }
            self.stmt(s);
        }
    }

    fn block(&mut self, stmts: &[Stmt]) {
        self.out.push('{');
        if stmts.is_empty() {
            self.out.push_str(" }");
            return;
        }
        self.indent += 1;
        for s in stmts {
            self.nl();
            self.stmt(s);
        }
        self.indent -= 1;
        self.nl();
        self.out.push('}');
    }

    pub fn stmt(&mut self, s: &Stmt) {
        match s {
            Stmt::Let(n, e) => {
                self.out.push_str("stel ");
                self.out.push_str(n);
                self.out.push_str(" = ");
                self.expr(e, 0);
                self.out.push(';');
            }
            Stmt::Return(e) => {
                self.out.push_str("antwoord ");
                self.expr(e, 0);
                self.out.push(';');
            }
            Stmt::Expr(e) => {
                self.expr(e, 0);
                self.out.push(';');
            }
            Stmt::Block(b) => self.block(b),
            Stmt::Break => self.out.push_str("stop;"),
            Stmt::Continue => self.out.push_str("volgende;"),
        }
    }

    /// Print `e` in a context that needs binding power > `min`.
    /// min = 0: statement / argument / initialiser position (anything goes unparenthesised).
    /// Operand positions pass the operator's precedence; prefix operators, block
    /// expressions and assignments are always parenthesised in operand position, because
    /// the parser lets `!`, `-`, `als`, `zolang` and `=` swallow what follows them.
    fn expr(&mut self, e: &Expr, min: u8) {
        let needs_paren = match e {
            Expr::Infix(op, _, _) => prec(op) <= min,
            Expr::Assign(..) | Expr::OpAssign(..) => min > 0,
            Expr::Prefix(..) => min > 0,
            Expr::If { .. } | Expr::While { .. } | Expr::Func { .. } => min > 0,
            Expr::Int(v) => *v < 0 && min > 0,
            Expr::Float { m, .. } => *m < 0 && min > 0,
            _ => false,
        };
        if needs_paren {
            self.out.push('(');
            self.expr(e, 0);
            self.out.push(')');
            return;
        }
        match e {
            Expr::Int(v) => self.out.push_str(&v.to_string()),
            Expr::Float { m, e } => self.out.push_str(&float_text(*m, *e)),
            Expr::Bool(v) => self.out.push_str(if *v { "ja" } else { "nee" }),
            Expr::Str(s) => {
                self.out.push('"');
                self.out.push_str(&escape_str(s));
                self.out.push('"');
            }
            Expr::Ident(n) => self.out.push_str(n),
            Expr::Prefix(op, r) => {
                self.out.push_str(op);
                // the operand is printed as an atom or parenthesised
                self.expr(r, 9);
            }
            Expr::Infix(op, l, r) => {
                let p = prec(op);
                // left-associative: the left operand may be of the same level
                self.expr(l, p - 1);
                self.out.push(' ');
                self.out.push_str(op);
                self.out.push(' ');
                self.expr(r, p);
            }
            Expr::If { c, th, el } => {
                self.out.push_str("als ");
                self.expr(c, 1);
                self.out.push(' ');
                self.block(th);
                if let Some(el) = el {
                    self.out.push_str(" anders ");
                    // `anders als` chain: an else-branch that is exactly one if-expression statement
                    if let [Stmt::Expr(inner @ Expr::If { .. })] = el.as_slice() {
                        self.expr(inner, 0);
                    } else {
                        self.block(el);
                    }
                }
            }
            Expr::While { c, body } => {
                self.out.push_str("zolang ");
                self.expr(c, 1);
                self.out.push(' ');
                self.block(body);
            }
            Expr::Func { name, params, body } => {
                self.out.push_str("functie");
                if !name.is_empty() {
                    self.out.push(' ');
                    self.out.push_str(name);
                }
                self.out.push('(');
                self.out.push_str(&params.join(", "));
                self.out.push_str(") ");
                self.block(body);
            }
            Expr::Call { f, args } => {
                match &**f {
                    Expr::Ident(n) => self.out.push_str(n),
                    Expr::Func { .. } => {
                        self.out.push('(');
                        self.expr(f, 0);
                        self.out.push(')');
                    }
                    other => self.expr(other, 9),
                }
                self.out.push('(');
                for (i, a) in args.iter().enumerate() {
                    if i > 0 {
                        self.out.push_str(", ");
                    }
                    self.expr(a, 0);
                }
                self.out.push(')');
            }
            Expr::Assign(l, r) => {
                self.expr(l, 9);
                self.out.push_str(" = ");
                self.expr(r, 1);
            }
            Expr::OpAssign(n, op, r) => {
                self.out.push_str(n);
                self.out.push(' ');
                self.out.push_str(op);
                self.out.push_str("= ");
                self.expr(r, 0);
            }
            Expr::Array(vs) => {
                self.out.push('[');
                for (i, a) in vs.iter().enumerate() {
                    if i > 0 {
                        self.out.push_str(", ");
                    }
                    self.expr(a, 0);
                }
                self.out.push(']');
            }
            Expr::Index(l, i) => {
                self.expr(l, 9);
                self.out.push('[');
                self.expr(i, 0);
                self.out.push(']');
            }
        }
    }
}

pub fn to_text(stmts: &[Stmt], compact: bool) -> String {
    let mut p = Printer::new(Style { compact });
    p.program(stmts);
    p.out
}

// ---------------------------------------------------------------------------
// Flattened JSON (node table, 1-based ids, children before parents)
// ---------------------------------------------------------------------------

pub struct Flat {
    pub nodes: Vec<Value>,
}

fn cps(s: &str) -> Value {
    Value::Array(s.chars().map(|c| json!(c as u32)).collect())
}

/// TLC integers are 32 bit: numbers beyond +-2^30 are shipped as text under "big"
pub fn int_node(v: i64) -> Value {
    if v.abs() < (1 << 30) {
        json!({"k":"Int","v":v})
    } else {
        json!({"k":"Int","big":v.to_string()})
    }
}

pub fn float_node(m: i64, e: u32) -> Value {
    // normal form: m odd or e = 0
    let (mut m, mut e) = (m, e);
    while e > 0 && m % 2 == 0 {
        m /= 2;
        e -= 1;
    }
    if m.abs() < (1 << 30) && e < 31 {
        json!({"k":"Float","m":m,"e":e})
    } else {
        json!({"k":"Float","big":format!("{m}/2^{e}")})
    }
}

impl Flat {
    pub fn new() -> Self {
        Flat { nodes: Vec::new() }
    }
    fn push(&mut self, v: Value) -> usize {
        self.nodes.push(v);
        self.nodes.len()
    }
    pub fn block(&mut self, b: &[Stmt]) -> Vec<usize> {
        b.iter().map(|s| self.stmt(s)).collect()
    }
    pub fn stmt(&mut self, s: &Stmt) -> usize {
        match s {
            Stmt::Let(n, e) => {
                let e = self.expr(e);
                self.push(json!({"k":"Let","name":cps(n),"e":e}))
            }
            Stmt::Return(e) => {
                let e = self.expr(e);
                self.push(json!({"k":"Return","e":e}))
            }
            Stmt::Expr(e) => {
                let e = self.expr(e);
                self.push(json!({"k":"Expr","e":e}))
            }
            Stmt::Block(b) => {
                let ids = self.block(b);
                self.push(json!({"k":"Block","body":ids}))
            }
            Stmt::Break => self.push(json!({"k":"Break"})),
            Stmt::Continue => self.push(json!({"k":"Continue"})),
        }
    }
    pub fn expr(&mut self, e: &Expr) -> usize {
        match e {
            Expr::Int(v) => self.push(int_node(*v)),
            Expr::Float { m, e } => self.push(float_node(*m, *e)),
            Expr::Bool(v) => self.push(json!({"k":"Bool","v":v})),
            Expr::Str(s) => self.push(json!({"k":"Str","cp":cps(s)})),
            Expr::Ident(n) => self.push(json!({"k":"Ident","name":cps(n)})),
            Expr::Prefix(op, r) => {
                let r = self.expr(r);
                self.push(json!({"k":"Prefix","op":op,"r":r}))
            }
            Expr::Infix(op, l, r) => {
                let l = self.expr(l);
                let r = self.expr(r);
                self.push(json!({"k":"Infix","op":op,"l":l,"r":r}))
            }
            Expr::If { c, th, el } => {
                let c = self.expr(c);
                let th = self.block(th);
                let (hasel, el) = match el {
                    Some(el) => (true, self.block(el)),
                    None => (false, vec![]),
                };
                self.push(json!({"k":"If","c":c,"th":th,"hasel":hasel,"el":el}))
            }
            Expr::While { c, body } => {
                let c = self.expr(c);
                let body = self.block(body);
                self.push(json!({"k":"While","c":c,"body":body}))
            }
            Expr::Func { name, params, body } => {
                let body = self.block(body);
                let params: Vec<Value> = params.iter().map(|p| cps(p)).collect();
                self.push(json!({"k":"Func","name":cps(name),"params":params,"body":body}))
            }
            Expr::Call { f, args } => {
                let f = self.expr(f);
                let args: Vec<usize> = args.iter().map(|a| self.expr(a)).collect();
                self.push(json!({"k":"Call","f":f,"args":args}))
            }
            Expr::Assign(l, r) => {
                let l = self.expr(l);
                let r = self.expr(r);
                self.push(json!({"k":"Assign","l":l,"r":r}))
            }
            Expr::OpAssign(n, op, r) => {
                // a op= e  means  a = a op (e)
                let l = self.push(json!({"k":"Ident","name":cps(n)}));
                let l2 = self.push(json!({"k":"Ident","name":cps(n)}));
                let r = self.expr(r);
                let inf = self.push(json!({"k":"Infix","op":op,"l":l2,"r":r}));
                self.push(json!({"k":"Assign","l":l,"r":inf}))
            }
            Expr::Array(vs) => {
                let vals: Vec<usize> = vs.iter().map(|a| self.expr(a)).collect();
                self.push(json!({"k":"Array","vals":vals}))
            }
            Expr::Index(l, i) => {
                let l = self.expr(l);
                let i = self.expr(i);
                self.push(json!({"k":"Index","l":l,"i":i}))
            }
        }
    }
}

/// (nodes, root) for a program
pub fn flatten(stmts: &[Stmt]) -> (Vec<Value>, Vec<usize>) {
    let mut f = Flat::new();
    let root = f.block(stmts);
    (f.nodes, root)
}

/// Convert the node table exported by the real parser (`verif::ast_json`) into the
/// TLC-ready form: decimal strings become small ints or "big", float bit patterns become
/// dyadics m/2^e where that is exact and small.
pub fn normalise_parser_tree(v: &mut Value) {
    if let Some(nodes) = v.get_mut("nodes").and_then(|n| n.as_array_mut()) {
        for n in nodes.iter_mut() {
            let k = n["k"].as_str().unwrap_or("").to_string();
            if k == "Int" {
                let s = n["v"].as_str().unwrap_or("0").to_string();
                *n = match s.parse::<i64>() {
                    Ok(i) => int_node(i),
                    Err(_) => json!({"k":"Int","big":s}),
                };
            } else if k == "Float" {
                let bits: u64 = n["bits"].as_str().unwrap_or("0").parse().unwrap_or(0);
                *n = match crate::proj::dyadic(f64::from_bits(bits)) {
                    Some((m, e)) => float_node(m, e),
                    None => json!({"k":"Float","big":format!("bits:{bits}")}),
                };
            }
        }
    }
}

/// Structural comparison of two flattened trees (ids may differ)
pub fn same_tree(an: &[Value], ar: &[Value], bn: &[Value], br: &[Value]) -> bool {
    fn node_eq(an: &[Value], a: &Value, bn: &[Value], b: &Value, key: &str) -> bool {
        match (a, b) {
            (Value::Array(x), Value::Array(y)) => {
                x.len() == y.len()
                    && x.iter()
                        .zip(y.iter())
                        .all(|(p, q)| node_eq(an, p, bn, q, key))
            }
            (Value::Number(x), Value::Number(y)) => {
                if is_child_key(key) {
                    let i = x.as_u64().unwrap() as usize;
                    let j = y.as_u64().unwrap() as usize;
                    tree_eq(an, &an[i - 1], bn, &bn[j - 1])
                } else {
                    x == y
                }
            }
            _ => a == b,
        }
    }
    fn is_child_key(k: &str) -> bool {
        matches!(
            k,
            "e" | "l" | "r" | "c" | "th" | "el" | "body" | "f" | "args" | "vals" | "i"
        )
    }
    fn tree_eq(an: &[Value], a: &Value, bn: &[Value], b: &Value) -> bool {
        let (ao, bo) = match (a.as_object(), b.as_object()) {
            (Some(x), Some(y)) => (x, y),
            _ => return false,
        };
        if ao.len() != bo.len() {
            return false;
        }
        let kind = ao.get("k").and_then(|k| k.as_str()).unwrap_or("");
        for (k, av) in ao {
            let bv = match bo.get(k) {
                Some(v) => v,
                None => return false,
            };
            // "e" is a child id in Let/Return/Expr statements but an exponent in Float nodes
            let key = if kind == "Float" { "" } else { k.as_str() };
            if !node_eq(an, av, bn, bv, key) {
                return false;
            }
        }
        true
    }
    ar.len() == br.len()
        && ar
            .iter()
            .zip(br.iter())
            .all(|(a, b)| node_eq(an, a, bn, b, "body"))
}
