use serde_json::{json, Value};
pub fn tokens_json(_text: &str) -> Value { json!({}) }
