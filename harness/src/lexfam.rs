//! C08: tokenisation and string literals.

use crate::pool::Worker;
use crate::Args;
use rand::rngs::StdRng;
use rand::seq::SliceRandom;
use rand::{Rng, SeedableRng};
use serde_json::{json, Value};
use std::io::Write;
use std::time::Duration;

/// Undo the escaping of Rust's `{:?}` for str
fn undebug(s: &str) -> String {
    let mut out = String::new();
    let mut it = s.chars().peekable();
    while let Some(c) = it.next() {
        if c != '\\' {
            out.push(c);
            continue;
        }
        match it.next() {
            Some('n') => out.push('\n'),
            Some('r') => out.push('\r'),
            Some('t') => out.push('\t'),
            Some('0') => out.push('\0'),
            Some('\\') => out.push('\\'),
            Some('"') => out.push('"'),
            Some('\'') => out.push('\''),
            Some('u') => {
                // \u{XXXX}
                let mut hex = String::new();
                if it.next() == Some('{') {
                    for h in it.by_ref() {
                        if h == '}' {
                            break;
                        }
                        hex.push(h);
                    }
                }
                if let Some(ch) = u32::from_str_radix(&hex, 16).ok().and_then(char::from_u32) {
                    out.push(ch);
                }
            }
            Some(o) => {
                out.push('\\');
                out.push(o);
            }
            None => out.push('\\'),
        }
    }
    out
}

fn cps(s: &str) -> Vec<u32> {
    s.chars().map(|c| c as u32).collect()
}

/// Worker op "tokens": the real lexer's token stream and the real parser's verdict on `text`
pub fn tokens_json(text: &str) -> Value {
    let r = std::panic::catch_unwind(|| nederlang::verif::tokens(text));
    let (toks, fin) = match r {
        Ok(x) => x,
        Err(_) => return json!({"panic":true}),
    };
    // byte offset -> character index
    let mut idx = vec![0usize; text.len() + 1];
    let mut n = 0usize;
    for (b, ch) in text.char_indices() {
        for k in 0..ch.len_utf8() {
            idx[b + k] = n;
        }
        n += 1;
    }
    idx[text.len()] = n;
    let tj: Vec<Value> = toks
        .iter()
        .map(|t| {
            let (kind, payload) = match t.debug.find('(') {
                Some(p) => {
                    let inner = &t.debug[p + 1..t.debug.len() - 1];
                    let inner = inner.strip_prefix('"').and_then(|x| x.strip_suffix('"')).unwrap_or(inner);
                    (t.debug[..p].to_string(), undebug(inner))
                }
                None => (t.debug.clone(), String::new()),
            };
            json!({"k":kind,"txt":cps(&payload),"e":idx[t.end.min(text.len())]})
        })
        .collect();
    // what the parser makes of it: accepted or not, and the decoded string literals in order
    let p = crate::run::parse_tree(text);
    let mut strs: Vec<Value> = Vec::new();
    if p["ok"] == true {
        if let Some(nodes) = p["tree"]["nodes"].as_array() {
            // string nodes in source order: the node table is children-first, left to right
            for nd in nodes {
                if nd["k"] == "Str" {
                    strs.push(nd["cp"].clone());
                }
            }
        }
    }
    json!({"toks":tj,"final":idx[fin.min(text.len())],"parse_ok":p["ok"],"parse_kind":p.get("kind").cloned().unwrap_or(json!("")),
           "strs":strs})
}

fn char_rec(c: char) -> Value {
    json!({"c":c as u32,"a":c.is_alphabetic(),"n":c.is_alphanumeric()})
}

const WORDS: &[&str] = &[
    "als", "anders", "antwoord", "functie", "zolang", "stel", "ja", "nee", "stop", "volgende", "alsof", "stelling",
    "janee", "a", "b_1", "_x", "élan", "naïef", "日本", "x9", "Ωmega", "ja_", "stopt", "nee2",
];
const OPS: &[&str] = &["/*", "*/", "==", "!=", "<=", ">=", "&&", "||", "=", "!", "<", ">", "/", ";", ",", ".", "(", ")", "{", "}",
    "[", "]", "-", "+", "*", "^", "%"];
const NUMS: &[&str] = &["0", "7", "42", "1.5", "3.", "007", "10.25", "1.2.3"];
const STRS: &[&str] = &["\"a\r\nb\"", "\"x\ny\"", "\"\"", "\"a\"", "\"a b\"", "\"é😀\"", "\"x\\\"y\"", "\"p\\\\\"", "\"\\n\\t\"", "\"{}\"", "\"//geen commentaar\""];
const SEPS: &[&str] = &["", " ", "\n", "\t", "\u{b}", "\u{c}", "\r", "\u{85}", "\u{200e}", "\u{200f}", "\u{2028}", "\u{2029}",
    " // c\n", "//\n"];
const ILLEGAL: &[&str] = &["№", "&", "|", "#", "@", "\"open", "٣", "~", "$", "\u{a0}", "\u{3000}", "\u{2003}", "\u{1680}",
    "\u{feff}", "\u{200b}", "\u{1c}", "\u{0}"];

pub fn lex_inputs(seed: u64, n: u64, enumerate: bool) -> Vec<String> {
    let mut out: Vec<String> = Vec::new();
    let vocab: Vec<&str> = WORDS.iter().chain(OPS.iter()).chain(NUMS.iter()).chain(STRS.iter()).cloned().collect();
    if enumerate {
        // every token alone, and every pair of tokens with every separator choice (including none)
        for a in &vocab {
            out.push(a.to_string());
        }
        for a in &vocab {
            for b in &vocab {
                for s in ["", " ", "\n", "//\n"] {
                    out.push(format!("{a}{s}{b}"));
                }
            }
        }
        for a in ILLEGAL {
            out.push(a.to_string());
            out.push(format!("1 {a} print(\"x\")"));
            out.push(format!("a{a}"));
        }
        // all string contents up to length 4 over a small alphabet, written as literals
        let alpha: [char; 7] = ['a', '"', '\\', 'n', 't', '{', 'é'];
        let mut contents: Vec<String> = vec![String::new()];
        let mut layer: Vec<String> = vec![String::new()];
        for _ in 0..4 {
            let mut next = Vec::new();
            for c in &layer {
                for ch in alpha {
                    let mut s = c.clone();
                    s.push(ch);
                    next.push(s);
                }
            }
            contents.extend(next.iter().cloned());
            layer = next;
        }
        for c in contents {
            out.push(format!("\"{}\"", crate::ast::escape_str(&c)));
        }
        // raw literals (not produced by the encoder): every raw content up to length 3 over the same alphabet
        // plus a raw carriage return and a raw line feed (a text may contain them as written)
        let ralpha: [char; 9] = ['a', '"', '\\', 'n', 't', '{', 'é', '\r', '\n'];
        let mut raws: Vec<String> = vec![String::new()];
        let mut layer: Vec<String> = vec![String::new()];
        for _ in 0..3 {
            let mut next = Vec::new();
            for c in &layer {
                for ch in ralpha {
                    let mut s = c.clone();
                    s.push(ch);
                    next.push(s);
                }
            }
            raws.extend(next.iter().cloned());
            layer = next;
        }
        for r in raws {
            out.push(format!("\"{r}\" 1"));
        }
        // comments: every body up to length 3 over an alphabet of characters that mean something elsewhere
        // (quote, backslash, slash, star), ended by a line feed, by CR LF and by the end of the text
        let calpha: [char; 7] = ['a', '"', '\\', '/', ' ', '*', 'é'];
        let mut bodies: Vec<String> = vec![String::new()];
        let mut layer: Vec<String> = vec![String::new()];
        for _ in 0..3 {
            let mut next = Vec::new();
            for c in &layer {
                for ch in calpha {
                    let mut s = c.clone();
                    s.push(ch);
                    next.push(s);
                }
            }
            bodies.extend(next.iter().cloned());
            layer = next;
        }
        for b in bodies {
            out.push(format!("1 //{b}\n2 \"s\" 3"));
            out.push(format!("x//{b}\r\ny"));
            out.push(format!("ja //{b}"));
        }
    }
    let mut rng = StdRng::seed_from_u64(seed);
    for _ in 0..n {
        let k = rng.gen_range(1..9);
        let mut s = String::new();
        for _ in 0..k {
            let t = if rng.gen_bool(0.04) { ILLEGAL.choose(&mut rng).unwrap() } else { vocab.choose(&mut rng).unwrap() };
            s.push_str(t);
            if rng.gen_bool(0.08) {
                // a comment with a random body
                s.push_str(" //");
                for _ in 0..rng.gen_range(0..6) {
                    s.push(*['a', '"', '\\', '/', ' ', '*', 'é', '\t', '{'].choose(&mut rng).unwrap());
                }
                s.push('\n');
            } else {
                s.push_str(SEPS.choose(&mut rng).unwrap());
            }
        }
        out.push(s);
    }
    out
}

pub fn gen_lex(args: &Args) {
    let seed = args.num("seed", 1);
    let n = args.num("n", 500);
    let out = args.get("out", "/dev/stdout");
    let shard = args.num("shard", 0);
    let shards = args.num("shards", 1);
    let enumerate = args.num("enumerate", 1) > 0;
    let first_id = args.num("first-id", 1);
    let mut f = std::io::BufWriter::new(std::fs::File::create(&out).expect("create out"));
    let mut w = Worker::spawn(Duration::from_secs(10));
    let mut id = first_id;
    for (k, text) in lex_inputs(seed, n, enumerate).iter().enumerate() {
        if (k as u64) % shards != shard {
            continue;
        }
        let r = w.request(&json!({"op":"tokens","text":text}));
        let chars: Vec<Value> = text.chars().map(char_rec).collect();
        let mut rec = json!({"id":id,"chars":chars,"text":text});
        if r.get("toks").is_some() {
            for (k, v) in r.as_object().unwrap() {
                rec[k] = v.clone();
            }
            rec["crashed"] = json!(false);
        } else {
            rec["toks"] = json!([]);
            rec["final"] = json!(0);
            rec["parse_ok"] = json!(false);
            rec["parse_kind"] = json!("Panic");
            rec["strs"] = json!([]);
            rec["crashed"] = json!(true);
        }
        writeln!(f, "{}", rec).unwrap();
        id += 1;
    }
}
