//! Type-directed random program generator.
//!
//! Programs are closed, terminate by construction (loops run on a dedicated counter that
//! is advanced first thing in the body; recursion runs on a fuel parameter), stay inside
//! the documented part of the language (DESIGN.md 4.3) and end in an expression statement.
//! A small fraction deliberately contains an ill-typed or out-of-range operation so that
//! error paths and "output before the error" are exercised too.

use crate::ast::*;
use rand::rngs::StdRng;
use rand::seq::SliceRandom;
use rand::{Rng, SeedableRng};

#[derive(Clone, Debug, PartialEq)]
pub enum Ty {
    Int,
    Float,
    Bool,
    Str,
    Null,
    /// array with statically known length
    Arr(Box<Ty>, usize),
    Fn(Vec<Ty>, Box<Ty>),
}

#[derive(Clone, Debug)]
pub struct Var {
    pub name: String,
    pub ty: Ty,
    pub assignable: bool,
    /// strings: known character count if never modified to another length
    pub strlen: Option<usize>,
    /// strings: whether element assignment into it stays inside the documented language
    pub str_mutable: bool,
}

#[derive(Clone, Debug, Default)]
pub struct Scope {
    pub vars: Vec<Var>,
}

#[derive(Clone, Debug)]
pub struct FnCtx {
    pub scopes: Vec<Scope>,
    pub ret: Option<Ty>,
    /// the name and type of the function being defined, when it may call itself
    pub loops: usize,
}

#[derive(Clone)]
pub struct GenCfg {
    pub max_stmts: usize,
    pub max_depth: usize,
    pub error_rate: f64,
    pub float_rate: f64,
    pub string_rate: f64,
    pub array_rate: f64,
    pub func_rate: f64,
    pub loop_rate: f64,
    pub shadow_rate: f64,
    pub print_rate: f64,
    pub nonascii: bool,
    /// draw variable / parameter names from a small pool, so that the same identifier is
    /// reused across scopes, functions and nesting levels
    pub name_pool: bool,
    /// probability that an identifier use names a variable that is NOT visible here
    /// (a local of an enclosing function, a variable of a closed block, an unknown name)
    pub stray_rate: f64,
    /// probability of degenerate shapes: empty function bodies, empty blocks
    pub empty_rate: f64,
}

impl Default for GenCfg {
    fn default() -> Self {
        GenCfg {
            max_stmts: 12,
            max_depth: 3,
            error_rate: 0.03,
            float_rate: 0.15,
            string_rate: 0.2,
            array_rate: 0.2,
            func_rate: 0.25,
            loop_rate: 0.2,
            shadow_rate: 0.1,
            print_rate: 0.2,
            nonascii: true,
            name_pool: false,
            stray_rate: 0.0,
            empty_rate: 0.04,
        }
    }
}

pub struct Gen {
    pub rng: StdRng,
    pub cfg: GenCfg,
    pub ctxs: Vec<FnCtx>,
    counter: usize,
    /// multiplicative estimate of how often the code being generated runs
    mult: usize,
    /// string literal contents used so far (each content is used once, U2)
    used_lits: Vec<String>,
    /// true while generating code that may run more than once (loop body, function body)
    repeated: usize,
    /// functions that must not be called from the code being generated (they are being defined)
    fuel_fns: Vec<String>,
    /// recursive functions: their first argument is fuel and is passed as a small literal
    fuel_names: Vec<String>,
    pending_params: Vec<String>,
    /// the name being declared by the statement under construction (never mentioned in its
    /// own initialiser, U5)
    avoid: Option<String>,
    /// names that exist somewhere in the program but are not visible everywhere
    all_names: Vec<(String, Ty)>,
    all_fns: Vec<Var>,
}

const ASCII_WORDS: &[&str] = &[
    "a", "ab", "abc", "hallo", "wereld", "x1", "foo bar", "Q", "zz", "nl", "tekst", "k", "0", "12",
    " 7 ", "3.5", "-4", "ja", "", "a,b", "{}", "{", "}", "[]",
];
const NONASCII_WORDS: &[&str] = &["é", "ñandú", "ß", "日本", "🇳🇱", "a😀b", "Ω", "ünï"];

impl Gen {
    pub fn new(seed: u64, cfg: GenCfg) -> Self {
        Gen {
            rng: StdRng::seed_from_u64(seed),
            cfg,
            ctxs: vec![FnCtx {
                scopes: vec![Scope::default()],
                ret: None,
                loops: 0,
            }],
            counter: 0,
            mult: 1,
            used_lits: Vec::new(),
            repeated: 0,
            fuel_fns: Vec::new(),
            fuel_names: Vec::new(),
            pending_params: Vec::new(),
            avoid: None,
            all_names: Vec::new(),
            all_fns: Vec::new(),
        }
    }

    fn chance(&mut self, p: f64) -> bool {
        self.rng.gen_bool(p.clamp(0.0, 1.0))
    }

    fn fresh(&mut self, prefix: &str) -> String {
        self.counter += 1;
        if self.cfg.name_pool && (prefix == "v" || prefix == "p") {
            // a small pool; names of functions and loop counters stay unique
            let pool = ["a", "b", "c", "x", "y", "n", "acc", "tmp"];
            let cand = pool[self.rng.gen_range(0..pool.len())].to_string();
            // parameters of one function must differ from each other
            if prefix == "p" {
                let cur = self.ctxs.last().unwrap();
                if cur.scopes[0].vars.iter().any(|v| v.name == cand) || self.pending_params.contains(&cand) {
                    return format!("{prefix}{}", self.counter);
                }
                self.pending_params.push(cand.clone());
            }
            return cand;
        }
        format!("{prefix}{}", self.counter)
    }

    fn cur(&mut self) -> &mut FnCtx {
        self.ctxs.last_mut().unwrap()
    }

    fn in_function(&self) -> bool {
        self.ctxs.len() > 1
    }

    fn declare(&mut self, v: Var) {
        if !matches!(v.ty, Ty::Fn(..)) {
            self.all_names.push((v.name.clone(), v.ty.clone()));
        } else {
            self.all_fns.push(v.clone());
        }
        self.cur().scopes.last_mut().unwrap().vars.push(v);
    }

    /// An identifier that may not be visible at this point (exercises name resolution)
    fn stray_ident(&mut self, ty: &Ty) -> Option<Expr> {
        if self.cfg.stray_rate > 0.0 && self.chance(self.cfg.stray_rate) {
            let avoid = self.avoid.clone();
            let c: Vec<&(String, Ty)> = self
                .all_names
                .iter()
                .filter(|(n, t)| t == ty && Some(n) != avoid.as_ref())
                .collect();
            if let Some((n, _)) = c.choose(&mut self.rng) {
                return Some(id(n));
            }
            return Some(id("onbekend"));
        }
        None
    }

    /// Variables visible here: the current function's scopes, innermost first, then the
    /// top-level scope of the program. (Globals of inner blocks are not offered inside
    /// functions: the function value could outlive the block, U6.)
    fn visible(&self) -> Vec<Var> {
        let mut out: Vec<Var> = Vec::new();
        let cur = self.ctxs.last().unwrap();
        for s in cur.scopes.iter().rev() {
            for v in s.vars.iter().rev() {
                if !out.iter().any(|o| o.name == v.name) {
                    out.push(v.clone());
                }
            }
        }
        if self.ctxs.len() > 1 {
            for v in self.ctxs[0].scopes[0].vars.iter().rev() {
                if !out.iter().any(|o| o.name == v.name) {
                    out.push(v.clone());
                }
            }
        }
        out
    }

    fn vars_of(&self, ty: &Ty) -> Vec<Var> {
        self.visible().into_iter().filter(|v| &v.ty == ty).collect()
    }

    // ------------------------------------------------------------------ types

    fn pick_scalar_ty(&mut self) -> Ty {
        let r: f64 = self.rng.gen();
        if r < self.cfg.float_rate {
            Ty::Float
        } else if r < self.cfg.float_rate + self.cfg.string_rate {
            Ty::Str
        } else if r < self.cfg.float_rate + self.cfg.string_rate + 0.15 {
            Ty::Bool
        } else {
            Ty::Int
        }
    }

    fn pick_ty(&mut self) -> Ty {
        if self.chance(self.cfg.array_rate) {
            let n = self.rng.gen_range(0..5);
            if self.chance(0.2) {
                let m = self.rng.gen_range(1..3);
                Ty::Arr(Box::new(Ty::Arr(Box::new(Ty::Int), m)), n.min(3))
            } else {
                let el = self.pick_scalar_ty();
                Ty::Arr(Box::new(el), n)
            }
        } else {
            self.pick_scalar_ty()
        }
    }

    // ------------------------------------------------------------ expressions

    fn int_lit(&mut self) -> Expr {
        let r: f64 = self.rng.gen();
        let v: i64 = if r < 0.6 {
            self.rng.gen_range(0..10)
        } else if r < 0.85 {
            self.rng.gen_range(10..100)
        } else if r < 0.95 {
            self.rng.gen_range(100..5000)
        } else {
            self.rng.gen_range(0..3)
        };
        if self.chance(0.15) && v != 0 {
            Expr::Prefix("-", b(Expr::Int(v)))
        } else {
            Expr::Int(v)
        }
    }

    fn float_lit(&mut self) -> Expr {
        let e = self.rng.gen_range(0..3u32);
        let m = self.rng.gen_range(0..40i64);
        if self.chance(0.15) && m != 0 {
            Expr::Prefix("-", b(Expr::Float { m, e }))
        } else {
            Expr::Float { m, e }
        }
    }

    fn word(&mut self) -> String {
        if self.cfg.nonascii && self.chance(0.2) {
            NONASCII_WORDS.choose(&mut self.rng).unwrap().to_string()
        } else {
            ASCII_WORDS.choose(&mut self.rng).unwrap().to_string()
        }
    }

    /// A string literal. Literals that may be the target of element assignment must have a
    /// content that occurs once in the program.
    fn str_lit(&mut self) -> Expr {
        Expr::Str(self.word())
    }

    fn unique_str_lit(&mut self) -> (Expr, usize) {
        loop {
            let n = self.rng.gen_range(1..6);
            let mut s = String::new();
            for _ in 0..n {
                let c = if self.cfg.nonascii && self.chance(0.2) {
                    *['é', 'ß', '日', '😀', 'Ω'].choose(&mut self.rng).unwrap()
                } else {
                    (b'a' + self.rng.gen_range(0..26)) as char
                };
                s.push(c);
            }
            s.push_str(&format!("{}", self.used_lits.len()));
            if !self.used_lits.contains(&s) {
                self.used_lits.push(s.clone());
                let len = s.chars().count();
                return (Expr::Str(s), len);
            }
        }
    }

    pub fn expr(&mut self, ty: &Ty, depth: usize) -> Expr {
        // a deliberate error now and then
        if depth > 0 && self.chance(self.cfg.error_rate / 3.0) {
            return self.bad_expr();
        }
        let leaf = depth == 0 || self.chance(0.3);
        match ty {
            Ty::Int => self.int_expr(depth, leaf),
            Ty::Float => self.float_expr(depth, leaf),
            Ty::Bool => self.bool_expr(depth, leaf),
            Ty::Str => self.str_expr(depth, leaf),
            Ty::Null => {
                if self.chance(0.5) {
                    call("print", vec![])
                } else {
                    Expr::If {
                        c: b(Expr::Bool(false)),
                        th: vec![Stmt::Expr(Expr::Int(1))],
                        el: None,
                    }
                }
            }
            Ty::Arr(el, n) => {
                let vs = self.vars_of(ty);
                if !vs.is_empty() && (leaf || self.chance(0.5)) {
                    return id(&vs.choose(&mut self.rng).unwrap().name);
                }
                let d = depth.saturating_sub(1);
                Expr::Array((0..*n).map(|_| self.expr(el, d)).collect())
            }
            Ty::Fn(ps, ret) => {
                let vs = self.vars_of(ty);
                if !vs.is_empty() && self.chance(0.8) {
                    return id(&vs.choose(&mut self.rng).unwrap().name);
                }
                if self.ctxs.len() >= 3 {
                    // keep function literals from nesting without bound: a flat body
                    let pn: Vec<String> = ps.iter().map(|_| self.fresh("p")).collect();
                    let body = match (&**ret, ps.first(), pn.first()) {
                        (Ty::Int, Some(Ty::Int), Some(p0)) => infix("+", id(p0), Expr::Int(1)),
                        (r, _, _) => {
                            let saved = self.ctxs.clone();
                            self.ctxs = vec![self.ctxs[0].clone()];
                            self.ctxs[0].scopes.truncate(1);
                            let e = self.expr(r, 0);
                            self.ctxs = saved;
                            e
                        }
                    };
                    return Expr::Func {
                        name: String::new(),
                        params: pn,
                        body: vec![Stmt::Expr(body)],
                    };
                }
                self.func_literal("", ps.clone(), (**ret).clone(), false)
            }
        }
    }

    fn call_of(&mut self, ret: &Ty, depth: usize) -> Option<Expr> {
        if self.mult > 30 {
            return None;
        }
        let stray = self.cfg.stray_rate > 0.0 && self.chance(self.cfg.stray_rate * 2.0);
        let pool = if stray { self.all_fns.clone() } else { self.visible() };
        let cands: Vec<Var> = pool
            .into_iter()
            .filter(|v| matches!(&v.ty, Ty::Fn(_, r) if **r == *ret) && !self.fuel_fns.contains(&v.name))
            .collect();
        let f = cands.choose(&mut self.rng)?.clone();
        if let Ty::Fn(ps, _) = &f.ty {
            let d = depth.saturating_sub(1);
            let mut args: Vec<Expr> = ps.iter().map(|p| self.expr(p, d)).collect();
            if self.fuel_names.contains(&f.name) && !args.is_empty() && ps[0] == Ty::Int {
                args[0] = Expr::Int(self.rng.gen_range(0..6));
            }
            return Some(Expr::Call {
                f: b(id(&f.name)),
                args,
            });
        }
        None
    }

    fn index_of(&mut self, el: &Ty, depth: usize) -> Option<Expr> {
        // arr[i] with an index that is in range by construction
        let cands: Vec<Var> = self
            .visible()
            .into_iter()
            .filter(|v| matches!(&v.ty, Ty::Arr(e, n) if **e == *el && *n > 0))
            .collect();
        let a = cands.choose(&mut self.rng)?.clone();
        if let Ty::Arr(_, n) = a.ty {
            let i = self.safe_index(n, depth);
            return Some(Expr::Index(b(id(&a.name)), b(i)));
        }
        None
    }

    fn safe_index(&mut self, n: usize, depth: usize) -> Expr {
        let n = n as i64;
        if depth > 0 && self.chance(0.3) {
            // (e % n + n) % n  is always in 0..n-1
            let e = self.int_expr(depth - 1, false);
            infix(
                "%",
                infix("+", infix("%", e, Expr::Int(n)), Expr::Int(n)),
                Expr::Int(n),
            )
        } else {
            let i = self.rng.gen_range(-n..n);
            if i < 0 {
                Expr::Prefix("-", b(Expr::Int(-i)))
            } else {
                Expr::Int(i)
            }
        }
    }

    /// A statement list whose value is `e`: usually the expression statement itself, sometimes the
    /// expression at the end of a bare block (nested once or twice) - the value of a statement list is
    /// the value of its last statement whatever that statement's shape.
    fn tail(&mut self, e: Expr) -> Vec<Stmt> {
        let r: f64 = self.rng.gen();
        if r < 0.10 {
            vec![Stmt::Block(vec![Stmt::Expr(e)])]
        } else if r < 0.14 {
            vec![Stmt::Block(vec![Stmt::Block(vec![Stmt::Expr(e)])])]
        } else if r < 0.18 {
            vec![Stmt::Block(vec![Stmt::Expr(Expr::Int(0)), Stmt::Expr(e)])]
        } else {
            vec![Stmt::Expr(e)]
        }
    }

    fn if_expr(&mut self, ty: &Ty, depth: usize) -> Expr {
        let d = depth.saturating_sub(1);
        let c = self.bool_expr(d, false);
        let t = self.expr(ty, d);
        let e = self.expr(ty, d);
        let th = self.tail(t);
        let el = self.tail(e);
        Expr::If {
            c: b(c),
            th,
            el: Some(el),
        }
    }

    fn int_expr(&mut self, depth: usize, leaf: bool) -> Expr {
        if let Some(e) = self.stray_ident(&Ty::Int) {
            return e;
        }
        if leaf || depth == 0 {
            let vs = self.vars_of(&Ty::Int);
            if !vs.is_empty() && self.chance(0.6) {
                return id(&vs.choose(&mut self.rng).unwrap().name);
            }
            return self.int_lit();
        }
        let d = depth - 1;
        match self.rng.gen_range(0..100) {
            0..=39 => {
                let op = *["+", "-", "*", "+", "-"].choose(&mut self.rng).unwrap();
                let l = self.int_expr(d, false);
                let r = self.int_expr(d, false);
                infix(op, l, r)
            }
            40..=51 => {
                // division / remainder by a non-zero literal (zero divisors are left to error_rate)
                let op = *["/", "%"].choose(&mut self.rng).unwrap();
                let l = self.int_expr(d, false);
                let k = self.rng.gen_range(1..9);
                let r = if self.chance(0.2) {
                    Expr::Prefix("-", b(Expr::Int(k)))
                } else {
                    Expr::Int(k)
                };
                infix(op, l, r)
            }
            52..=59 => self
                .call_of(&Ty::Int, d)
                .unwrap_or_else(|| self.int_lit()),
            60..=67 => self
                .index_of(&Ty::Int, d)
                .unwrap_or_else(|| self.int_lit()),
            68..=73 => {
                // lengte of a string or array
                let cands: Vec<Var> = self
                    .visible()
                    .into_iter()
                    .filter(|v| matches!(v.ty, Ty::Arr(..) | Ty::Str))
                    .collect();
                match cands.choose(&mut self.rng) {
                    Some(v) => call("lengte", vec![id(&v.name)]),
                    None => call("lengte", vec![self.str_lit()]),
                }
            }
            74..=80 => {
                // conversions
                match self.rng.gen_range(0..4) {
                    0 => call("int", vec![self.float_expr(d, false)]),
                    1 => call("int", vec![self.bool_expr(d, true)]),
                    2 => {
                        let n = self.rng.gen_range(0..300);
                        let pad = if self.chance(0.3) { " " } else { "" };
                        let sign = if self.chance(0.2) { "-" } else { "" };
                        call("int", vec![Expr::Str(format!("{pad}{sign}{n}{pad}"))])
                    }
                    _ => call("int", vec![self.int_expr(d, false)]),
                }
            }
            81..=86 => self.if_expr(&Ty::Int, depth),
            87..=90 => Expr::Prefix("-", b(self.int_expr(d, false))),
            91..=93 => {
                // assignment as an expression
                let vs: Vec<Var> = self
                    .vars_of(&Ty::Int)
                    .into_iter()
                    .filter(|v| v.assignable)
                    .collect();
                match vs.choose(&mut self.rng) {
                    Some(v) => {
                        let r = self.int_expr(d, false);
                        Expr::Assign(b(id(&v.name)), b(r))
                    }
                    None => self.int_lit(),
                }
            }
            _ => {
                let vs = self.vars_of(&Ty::Int);
                match vs.choose(&mut self.rng) {
                    Some(v) => id(&v.name),
                    None => self.int_lit(),
                }
            }
        }
    }

    fn float_expr(&mut self, depth: usize, leaf: bool) -> Expr {
        if leaf || depth == 0 {
            let vs = self.vars_of(&Ty::Float);
            if !vs.is_empty() && self.chance(0.5) {
                return id(&vs.choose(&mut self.rng).unwrap().name);
            }
            return self.float_lit();
        }
        let d = depth - 1;
        match self.rng.gen_range(0..100) {
            0..=44 => {
                let op = *["+", "-", "+", "-", "*"].choose(&mut self.rng).unwrap();
                let l = self.float_expr(d, false);
                let r = self.float_expr(d, true);
                infix(op, l, r)
            }
            45..=59 => {
                let l = self.float_expr(d, false);
                let k = *[(2, 0u32), (4, 0), (1, 1), (8, 0), (1, 2)]
                    .choose(&mut self.rng)
                    .unwrap();
                let op = *["/", "/", "%"].choose(&mut self.rng).unwrap();
                infix(op, l, Expr::Float { m: k.0, e: k.1 })
            }
            60..=69 => call("float", vec![self.int_expr(d, true)]),
            70..=74 => {
                let s = *["1.5", "0.25", " 2.0 ", "3", "-0.5", "10.125"]
                    .choose(&mut self.rng)
                    .unwrap();
                call("float", vec![Expr::Str(s.to_string())])
            }
            75..=82 => self
                .call_of(&Ty::Float, d)
                .unwrap_or_else(|| self.float_lit()),
            83..=88 => self
                .index_of(&Ty::Float, d)
                .unwrap_or_else(|| self.float_lit()),
            89..=93 => self.if_expr(&Ty::Float, depth),
            _ => {
                let inner = self.float_expr(d, true);
                match inner {
                    // -0.0 is outside the exact float domain of the specification
                    Expr::Float { m: 0, .. } => inner,
                    e => Expr::Prefix("-", b(e)),
                }
            }
        }
    }

    fn bool_expr(&mut self, depth: usize, leaf: bool) -> Expr {
        if leaf || depth == 0 {
            let vs = self.vars_of(&Ty::Bool);
            if !vs.is_empty() && self.chance(0.5) {
                return id(&vs.choose(&mut self.rng).unwrap().name);
            }
            return Expr::Bool(self.chance(0.5));
        }
        let d = depth - 1;
        match self.rng.gen_range(0..100) {
            0..=39 => {
                let op = *["<", "<=", ">", ">=", "==", "!="]
                    .choose(&mut self.rng)
                    .unwrap();
                let l = self.int_expr(d, false);
                let r = self.int_expr(d, false);
                infix(op, l, r)
            }
            40..=47 => {
                let op = *["<", "<=", ">", ">=", "==", "!="]
                    .choose(&mut self.rng)
                    .unwrap();
                let l = self.float_expr(d, false);
                let r = self.float_expr(d, true);
                infix(op, l, r)
            }
            48..=55 => {
                let op = *["<", "<=", ">", ">=", "==", "!="]
                    .choose(&mut self.rng)
                    .unwrap();
                let l = self.str_expr(d, true);
                let r = self.str_expr(d, true);
                infix(op, l, r)
            }
            56..=71 => {
                let op = *["&&", "||"].choose(&mut self.rng).unwrap();
                let l = self.bool_expr(d, false);
                let r = self.bool_expr(d, false);
                infix(op, l, r)
            }
            72..=79 => Expr::Prefix("!", b(self.bool_expr(d, false))),
            80..=84 => {
                let op = *["==", "!="].choose(&mut self.rng).unwrap();
                let l = self.bool_expr(d, true);
                let r = self.bool_expr(d, true);
                infix(op, l, r)
            }
            85..=90 => {
                let t = self.pick_scalar_ty();
                let a = self.expr(&t, d);
                call("bool", vec![a])
            }
            91..=94 => self
                .call_of(&Ty::Bool, d)
                .unwrap_or_else(|| Expr::Bool(true)),
            _ => self.if_expr(&Ty::Bool, depth),
        }
    }

    fn str_expr(&mut self, depth: usize, leaf: bool) -> Expr {
        if leaf || depth == 0 {
            let vs = self.vars_of(&Ty::Str);
            if !vs.is_empty() && self.chance(0.5) {
                return id(&vs.choose(&mut self.rng).unwrap().name);
            }
            return self.str_lit();
        }
        let d = depth - 1;
        match self.rng.gen_range(0..100) {
            0..=24 => {
                let t = if self.chance(0.5) {
                    Ty::Int
                } else {
                    self.pick_scalar_ty()
                };
                let a = self.expr(&t, d);
                call("string", vec![a])
            }
            25..=39 => {
                let t = self.pick_ty();
                let a = self.expr(&t, d);
                call("type", vec![a])
            }
            40..=59 => {
                // character of a string of known length
                let cands: Vec<Var> = self
                    .vars_of(&Ty::Str)
                    .into_iter()
                    .filter(|v| v.strlen.map(|n| n > 0).unwrap_or(false))
                    .collect();
                match cands.choose(&mut self.rng) {
                    Some(v) => {
                        let i = self.safe_index(v.strlen.unwrap(), d);
                        Expr::Index(b(id(&v.name)), b(i))
                    }
                    None => {
                        let w = self.word();
                        let n = w.chars().count();
                        if n == 0 {
                            Expr::Str(w)
                        } else {
                            let i = self.safe_index(n, 0);
                            Expr::Index(b(Expr::Str(w)), b(i))
                        }
                    }
                }
            }
            60..=69 => self
                .call_of(&Ty::Str, d)
                .unwrap_or_else(|| self.str_lit()),
            70..=77 => self
                .index_of(&Ty::Str, d)
                .unwrap_or_else(|| self.str_lit()),
            78..=84 => self.if_expr(&Ty::Str, depth),
            _ => self.str_lit(),
        }
    }

    /// An expression that fails at run time (or, rarely, at compile time)
    fn bad_expr(&mut self) -> Expr {
        match self.rng.gen_range(0..14) {
            0 => infix("+", Expr::Int(1), Expr::Bool(true)),
            1 => infix("<", Expr::Str("a".into()), Expr::Int(1)),
            2 => Expr::Prefix("!", b(Expr::Int(1))),
            3 => Expr::Index(b(Expr::Array(vec![Expr::Int(1), Expr::Int(2)])), b(Expr::Int(2))),
            4 => Expr::Index(
                b(Expr::Array(vec![Expr::Int(1)])),
                b(Expr::Prefix("-", b(Expr::Int(2)))),
            ),
            5 => Expr::Index(b(Expr::Array(vec![Expr::Int(1)])), b(Expr::Bool(true))),
            6 => call("int", vec![Expr::Str("abc".into())]),
            7 => call("lengte", vec![Expr::Int(5)]),
            8 => call("int", vec![]),
            9 => call("string", vec![Expr::Int(1), Expr::Int(2)]),
            10 => infix("&&", Expr::Bool(true), Expr::Int(0)),
            11 => Expr::Prefix("-", b(Expr::Str("x".into()))),
            12 => infix("==", Expr::Int(1), Expr::Float { m: 1, e: 0 }),
            _ => Expr::Index(b(Expr::Str("abc".into())), b(Expr::Int(3))),
        }
    }

    // ------------------------------------------------------------- functions

    /// `functie name(params) { ... }` returning `ret`.
    fn func_literal(&mut self, name: &str, ps: Vec<Ty>, ret: Ty, recursive: bool) -> Expr {
        self.pending_params.clear();
        let pnames: Vec<String> = ps.iter().map(|_| self.fresh("p")).collect();
        self.pending_params.clear();
        self.ctxs.push(FnCtx {
            scopes: vec![Scope::default()],
            ret: Some(ret.clone()),
            loops: 0,
        });
        for (n, t) in pnames.iter().zip(ps.iter()) {
            self.declare(Var {
                name: n.clone(),
                ty: t.clone(),
                assignable: true,
                strlen: None,
                str_mutable: false,
            });
        }
        // the body is one more block scope
        self.cur().scopes.push(Scope::default());
        self.repeated += 1;
        let saved_mult = self.mult;
        self.mult = self.mult.max(4);
        let mut body: Vec<Stmt> = Vec::new();
        if !recursive && self.chance(self.cfg.empty_rate) {
            // a function with an empty body (its value is null)
            self.mult = saved_mult;
            self.repeated -= 1;
            self.ctxs.pop();
            return Expr::Func {
                name: name.to_string(),
                params: pnames,
                body,
            };
        }
        if recursive {
            // fuel is the first parameter
            self.cur().scopes[0].vars[0].assignable = false;
            let base = self.expr(&ret, 1);
            body.push(Stmt::Expr(Expr::If {
                c: b(infix("<=", id(&pnames[0]), Expr::Int(0))),
                th: vec![Stmt::Return(base)],
                el: None,
            }));
        }
        let n = self.rng.gen_range(0..4);
        self.stmts_into(&mut body, n, 2);
        // result
        let result = if recursive {
            let mut args: Vec<Expr> = vec![infix("-", id(&pnames[0]), Expr::Int(1))];
            for t in ps.iter().skip(1) {
                args.push(self.expr(t, 1));
            }
            let rec = Expr::Call {
                f: b(id(name)),
                args,
            };
            match ret {
                Ty::Int => {
                    let other = self.int_expr(1, false);
                    if self.chance(0.5) {
                        infix("+", rec, other)
                    } else {
                        infix("+", other, rec)
                    }
                }
                _ => rec,
            }
        } else {
            self.expr(&ret, 2)
        };
        if !recursive && self.chance(0.06) {
            // the body ends in an `als` without `anders` whose branch leaves with `antwoord`:
            // when it is not taken the function ends there (its value is null)
            let c = self.bool_expr(1, false);
            body.push(Stmt::Expr(Expr::If { c: b(c), th: vec![Stmt::Return(result)], el: None }));
        } else if self.chance(0.3) {
            body.push(Stmt::Return(result));
        } else {
            let t = self.tail(result);
            body.extend(t);
        }
        self.mult = saved_mult;
        self.repeated -= 1;
        self.ctxs.pop();
        Expr::Func {
            name: name.to_string(),
            params: pnames,
            body,
        }
    }

    fn define_function(&mut self, out: &mut Vec<Stmt>) {
        let np = self.rng.gen_range(0..4);
        let recursive = self.chance(0.3);
        let mut ps: Vec<Ty> = Vec::new();
        if recursive {
            ps.push(Ty::Int);
        }
        for _ in 0..np {
            let t = if self.chance(0.1) {
                Ty::Fn(vec![Ty::Int], Box::new(Ty::Int))
            } else {
                self.pick_ty()
            };
            ps.push(t);
        }
        let ret = if self.chance(0.7) {
            Ty::Int
        } else {
            self.pick_scalar_ty()
        };
        let name = if self.cfg.name_pool && self.chance(0.5) {
            ["hulp", "stap", "g", "h", "doe"][self.rng.gen_range(0..5)].to_string()
        } else {
            self.fresh("f")
        };
        let fty = Ty::Fn(ps.clone(), Box::new(ret.clone()));
        let named = self.chance(0.6);
        if named {
            // visible inside its own body at top level only (a local function can not see itself)
            let can_recurse = !self.in_function();
            let rec = recursive && can_recurse;
            if recursive && !can_recurse {
                ps.remove(0);
            }
            let fty = Ty::Fn(ps.clone(), Box::new(ret.clone()));
            if rec {
                self.declare(Var {
                    name: name.clone(),
                    ty: fty.clone(),
                    assignable: false,
                    strlen: None,
                    str_mutable: false,
                });
                self.fuel_fns.push(name.clone());
            }
            let f = self.func_literal(&name, ps.clone(), ret.clone(), rec);
            if rec {
                self.fuel_fns.pop();
                self.fuel_names.push(name.clone());
                self.forget(&name);
            }
            self.declare(Var {
                name: name.clone(),
                ty: if rec {
                    Ty::Fn(ps.clone(), Box::new(ret.clone()))
                } else {
                    fty
                },
                assignable: false,
                strlen: None,
                str_mutable: false,
            });
            out.push(Stmt::Expr(f));
        } else {
            let mut ps2 = ps.clone();
            if recursive {
                ps2.remove(0);
            }
            let f = self.func_literal("", ps2.clone(), ret.clone(), false);
            self.declare(Var {
                name: name.clone(),
                ty: Ty::Fn(ps2, Box::new(ret)),
                assignable: false,
                strlen: None,
                str_mutable: false,
            });
            out.push(Stmt::Let(name, f));
            let _ = fty;
        }
    }

    fn forget(&mut self, name: &str) {
        for s in self.cur().scopes.iter_mut() {
            s.vars.retain(|v| v.name != name);
        }
    }

    // ------------------------------------------------------------ statements

    fn let_stmt(&mut self, out: &mut Vec<Stmt>) {
        let ty = self.pick_ty();
        let name = if self.chance(self.cfg.shadow_rate) {
            // reuse a visible name: shadowing in an inner scope, or re-declaration in the same one
            match self.visible().choose(&mut self.rng) {
                Some(v) if !matches!(v.ty, Ty::Fn(..)) && v.assignable => v.name.clone(),
                _ => self.fresh("v"),
            }
        } else {
            self.fresh("v")
        };
        let (e, strlen, str_mutable) = if ty == Ty::Str && self.repeated == 0 && self.chance(0.5) {
            let (e, n) = self.unique_str_lit();
            (e, Some(n), true)
        } else {
            // the initialiser must not mention the name being declared (U5)
            let e = self.expr_avoiding(&ty, self.cfg.max_depth, &name);
            (e, None, false)
        };
        self.declare(Var {
            name: name.clone(),
            ty,
            assignable: true,
            strlen,
            str_mutable,
        });
        out.push(Stmt::Let(name, e));
    }

    fn expr_avoiding(&mut self, ty: &Ty, depth: usize, name: &str) -> Expr {
        // temporarily hide `name` from every scope of the current context and the globals
        let saved = self.ctxs.clone();
        for c in self.ctxs.iter_mut() {
            for s in c.scopes.iter_mut() {
                s.vars.retain(|v| v.name != name);
            }
        }
        let prev = self.avoid.replace(name.to_string());
        let e = self.expr(ty, depth);
        self.avoid = prev;
        // declarations made while generating (there are none in expressions) are not kept
        self.ctxs = saved;
        e
    }

    fn assign_stmt(&mut self, out: &mut Vec<Stmt>) {
        // now and then: re-bind a function name to another function of the same signature
        // (call sites written earlier must call the new one from then on)
        if self.chance(0.08) {
            let fs: Vec<Var> = self
                .visible()
                .into_iter()
                .filter(|v| matches!(v.ty, Ty::Fn(..)) && !self.fuel_fns.contains(&v.name))
                .collect();
            if let Some(v) = fs.choose(&mut self.rng).cloned() {
                if let Ty::Fn(ps, ret) = v.ty.clone() {
                    let f = self.func_literal("", ps, *ret, false);
                    out.push(Stmt::Expr(Expr::Assign(b(id(&v.name)), b(f))));
                    return;
                }
            }
        }
        let vs: Vec<Var> = self
            .visible()
            .into_iter()
            .filter(|v| v.assignable && !matches!(v.ty, Ty::Fn(..)))
            .collect();
        let v = match vs.choose(&mut self.rng) {
            Some(v) => v.clone(),
            None => return self.let_stmt(out),
        };
        let d = self.cfg.max_depth;
        match &v.ty {
            Ty::Int | Ty::Float if self.chance(0.5) => {
                let op = if v.ty == Ty::Int {
                    *["+", "-", "*", "+"].choose(&mut self.rng).unwrap()
                } else {
                    *["+", "-"].choose(&mut self.rng).unwrap()
                };
                let r = self.expr(&v.ty, d - 1);
                out.push(Stmt::Expr(Expr::OpAssign(v.name.clone(), op, b(r))));
            }
            Ty::Arr(el, n) if *n > 0 && self.chance(0.7) => {
                let i = self.safe_index(*n, 1);
                let r = self.expr(el, d - 1);
                out.push(Stmt::Expr(Expr::Assign(
                    b(Expr::Index(b(id(&v.name)), b(i))),
                    b(r),
                )));
            }
            Ty::Str if v.str_mutable && v.strlen.unwrap_or(0) > 0 && self.repeated == 0 => {
                // replace one character by one character (length stays known)
                let i = self.safe_index(v.strlen.unwrap(), 0);
                let c = if self.cfg.nonascii && self.chance(0.3) {
                    *["é", "😀", "ß"].choose(&mut self.rng).unwrap()
                } else {
                    *["x", "Y", "0", " "].choose(&mut self.rng).unwrap()
                };
                out.push(Stmt::Expr(Expr::Assign(
                    b(Expr::Index(b(id(&v.name)), b(i))),
                    b(Expr::Str(c.to_string())),
                )));
            }
            Ty::Str => {
                let r = self.expr(&v.ty, d - 1);
                self.set_str_info(&v.name, None, false);
                out.push(Stmt::Expr(Expr::Assign(b(id(&v.name)), b(r))));
            }
            _ => {
                let r = self.expr(&v.ty, d - 1);
                out.push(Stmt::Expr(Expr::Assign(b(id(&v.name)), b(r))));
            }
        }
    }

    fn set_str_info(&mut self, name: &str, strlen: Option<usize>, m: bool) {
        for c in self.ctxs.iter_mut() {
            for s in c.scopes.iter_mut() {
                for v in s.vars.iter_mut() {
                    if v.name == name {
                        v.strlen = strlen;
                        v.str_mutable = m;
                    }
                }
            }
        }
    }

    fn print_stmt(&mut self, out: &mut Vec<Stmt>) {
        let n = self.rng.gen_range(0..4);
        let mut args = Vec::new();
        if self.chance(0.5) {
            // a format string with placeholders
            let k = self.rng.gen_range(0..4);
            let mut f = String::new();
            for i in 0..k {
                f.push_str(["x=", " ", "", "- "][i % 4]);
                f.push_str("{}");
            }
            if self.chance(0.2) {
                f.push_str(" {");
            }
            args.push(Expr::Str(f));
        }
        for _ in 0..n {
            let t = self.pick_ty();
            args.push(self.expr(&t, 2));
        }
        out.push(Stmt::Expr(call("print", args)));
    }

    fn if_stmt(&mut self, out: &mut Vec<Stmt>, depth: usize) {
        let c = self.bool_expr(2, false);
        let th = self.block(depth);
        let el = if self.chance(0.5) {
            if self.chance(0.3) {
                // anders als ...
                let c2 = self.bool_expr(2, false);
                let th2 = self.block(depth);
                let el2 = if self.chance(0.5) {
                    Some(self.block(depth))
                } else {
                    None
                };
                Some(vec![Stmt::Expr(Expr::If {
                    c: b(c2),
                    th: th2,
                    el: el2,
                })])
            } else {
                Some(self.block(depth))
            }
        } else {
            None
        };
        out.push(Stmt::Expr(Expr::If { c: b(c), th, el }));
    }

    fn block(&mut self, depth: usize) -> Vec<Stmt> {
        self.cur().scopes.push(Scope::default());
        let mut body = Vec::new();
        let n = self.rng.gen_range(0..4);
        self.stmts_into(&mut body, n, depth.saturating_sub(1));
        if self.chance(0.4) {
            let t = self.pick_scalar_ty();
            let e = self.expr(&t, 2);
            let tl = self.tail(e);
            body.extend(tl);
        }
        self.cur().scopes.pop();
        body
    }

    fn while_stmt(&mut self, out: &mut Vec<Stmt>, depth: usize) {
        if self.mult > 20 {
            return self.assign_stmt(out);
        }
        let n = self.rng.gen_range(0..5) as i64;
        let counter = self.fresh("i");
        self.declare(Var {
            name: counter.clone(),
            ty: Ty::Int,
            assignable: false,
            strlen: None,
            str_mutable: false,
        });
        out.push(Stmt::Let(counter.clone(), Expr::Int(0)));
        let forever = self.chance(0.25);
        self.cur().scopes.push(Scope::default());
        self.cur().loops += 1;
        self.repeated += 1;
        let saved = self.mult;
        self.mult *= (n as usize).max(1);
        let mut body = vec![Stmt::Expr(Expr::OpAssign(
            counter.clone(),
            "+",
            b(Expr::Int(1)),
        ))];
        if forever {
            body.push(Stmt::Expr(Expr::If {
                c: b(infix(">", id(&counter), Expr::Int(n))),
                th: vec![Stmt::Break],
                el: None,
            }));
        }
        let k = self.rng.gen_range(0..4);
        self.stmts_into(&mut body, k, depth.saturating_sub(1));
        if self.chance(0.3) {
            let t = self.pick_scalar_ty();
            body.push(Stmt::Expr(self.expr(&t, 2)));
        }
        self.mult = saved;
        self.repeated -= 1;
        self.cur().loops -= 1;
        self.cur().scopes.pop();
        let c = if forever {
            Expr::Bool(true)
        } else {
            infix("<", id(&counter), Expr::Int(n))
        };
        out.push(Stmt::Expr(Expr::While { c: b(c), body }));
    }

    fn jump_stmt(&mut self, out: &mut Vec<Stmt>) {
        // stop / volgende / antwoord under a condition, where allowed
        let in_loop = self.ctxs.last().unwrap().loops > 0;
        let ret = self.ctxs.last().unwrap().ret.clone();
        let mut options: Vec<u8> = Vec::new();
        if in_loop {
            options.push(0);
            options.push(1);
        }
        if ret.is_some() {
            options.push(2);
        }
        let which = match options.choose(&mut self.rng) {
            Some(w) => *w,
            None => return self.assign_stmt(out),
        };
        let c = self.bool_expr(2, false);
        let s = match which {
            0 => Stmt::Break,
            1 => Stmt::Continue,
            _ => {
                let e = self.expr(&ret.unwrap(), 2);
                Stmt::Return(e)
            }
        };
        out.push(Stmt::Expr(Expr::If {
            c: b(c),
            th: vec![s],
            el: None,
        }));
    }

    pub fn stmts_into(&mut self, out: &mut Vec<Stmt>, n: usize, depth: usize) {
        for _ in 0..n {
            let r: f64 = self.rng.gen();
            let mut acc = 0.0;
            let mut pick = |p: f64| {
                acc += p;
                r < acc
            };
            if pick(0.22) {
                self.let_stmt(out);
            } else if pick(0.17) {
                self.assign_stmt(out);
            } else if pick(self.cfg.print_rate * 0.75) {
                self.print_stmt(out);
            } else if depth > 0 && pick(0.1) {
                self.if_stmt(out, depth);
            } else if depth > 0 && pick(self.cfg.loop_rate * 0.6) {
                self.while_stmt(out, depth);
            } else if depth > 0 && self.ctxs.len() < 3 && pick(self.cfg.func_rate * 0.5) {
                // functions are defined at the top scope of the program or of a function body:
                // a function defined in an inner block could outlive the block's variables (U6)
                if self.cfg.name_pool
                    || (self.cur().scopes.len() <= 2 && (self.in_function() || self.cur().scopes.len() == 1))
                {
                    self.define_function(out);
                } else {
                    self.let_stmt(out);
                }
            } else if pick(0.05) {
                self.jump_stmt(out);
            } else if depth > 0 && pick(0.04) {
                let b = self.block(depth);
                out.push(Stmt::Block(b));
            } else {
                // expression statement: a call or any expression
                let t = self.pick_ty();
                let e = self.expr(&t, self.cfg.max_depth);
                out.push(Stmt::Expr(e));
            }
        }
    }

    /// A whole program
    pub fn program(&mut self) -> Vec<Stmt> {
        let mut out = Vec::new();
        let n = self.rng.gen_range(1..=self.cfg.max_stmts);
        self.stmts_into(&mut out, n, self.cfg.max_depth);
        if self.chance(0.9) {
            let t = self.pick_ty();
            let e = self.expr(&t, self.cfg.max_depth);
            let tl = self.tail(e);
            out.extend(tl);
        }
        out
    }
}
