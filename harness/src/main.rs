//! nlh: the conformance harness between the TLA+ specifications in /verif/spec and the
//! real interpreter in /repo (built with the `verif` feature).
mod ast;
mod bcfam;
mod bigfam;
mod encfam;
mod gcfam;
mod gen;
mod lexfam;
mod parsefam;
mod pool;
mod proj;
mod purefam;
mod relfam;
mod xform;
mod run;
mod semfam;
mod seqfam;
mod session;
mod tmplfam;
mod totalfam;

use std::collections::HashMap;

pub struct Args {
    pub cmd: String,
    pub kv: HashMap<String, String>,
}

impl Args {
    pub fn get(&self, k: &str, d: &str) -> String {
        self.kv.get(k).cloned().unwrap_or_else(|| d.to_string())
    }
    pub fn num(&self, k: &str, d: u64) -> u64 {
        self.kv.get(k).and_then(|v| v.parse().ok()).unwrap_or(d)
    }
}

fn main() {
    let argv: Vec<String> = std::env::args().collect();
    if argv.len() < 2 {
        eprintln!("usage: nlh <command> [--key value]...");
        std::process::exit(2);
    }
    let mut kv = HashMap::new();
    let mut i = 2;
    while i + 1 < argv.len() {
        if let Some(k) = argv[i].strip_prefix("--") {
            kv.insert(k.to_string(), argv[i + 1].clone());
        }
        i += 2;
    }
    let args = Args {
        cmd: argv[1].clone(),
        kv,
    };
    match args.cmd.as_str() {
        "worker" => pool::worker_main(),
        "optable" => {
            let t = nederlang::verif::opcode_table();
            let v: Vec<serde_json::Value> = t
                .iter()
                .map(|(b, n, w)| serde_json::json!({"byte":b,"name":n,"widths":w}))
                .collect();
            // the compiler's numbering of the builtins, by name
            let mut names = vec![String::new(); nederlang::verif::builtin_count() as usize];
            for n in ["print", "type", "bool", "float", "int", "string", "lengte"] {
                if let Some(b) = nederlang::verif::builtin_number(n) {
                    if (b as usize) < names.len() {
                        names[b as usize] = n.to_string();
                    }
                }
            }
            println!(
                "{}",
                serde_json::json!({"ops":v,"builtins":nederlang::verif::builtin_count(),"builtin_names":names})
            );
        }
        "gen-sem" => semfam::gen_sem(&args),
        "gen-corpus" => semfam::gen_corpus(&args),
        "gen-bc" => bcfam::gen_bc(&args),
        "gen-big" => bigfam::gen_big(&args),
        "gen-float" => bigfam::gen_float(&args),
        "gen-ops" => semfam::gen_ops(&args),
        "gen-rel" => relfam::gen_rel(&args),
        "gen-loops" => semfam::gen_loops(&args),
        "gen-templates" => tmplfam::gen_templates(&args),
        "gen-deep-laws" => tmplfam::gen_deep_laws(&args),
        "replay-gc" => gcfam::replay_gc(&args),
        "gen-enum" => seqfam::gen_enum(&args),
        "replay-parse" => parsefam::replay_parse(&args),
        "gen-parse" => parsefam::gen_parse(&args),
        "gen-parseany" => parsefam::gen_parseany(&args),
        "gen-lex" => lexfam::gen_lex(&args),
        "gen-total" => totalfam::gen_total(&args),
        "gen-enc" => encfam::gen_enc(&args),
        "gen-pure" => purefam::gen_pure(&args),
        "gen-session" => session::gen_session_records(&args),
        "gen-session-abort" => session::gen_session_abort(&args),
        "gen-session-alphabet" => session::gen_session_alphabet(&args),
        "gen-binary" => totalfam::gen_binary(&args),
        "gen-roundtrip" => seqfam::gen_roundtrip(&args),
        "gen-heap" => gcfam::gen_heap(&args),
        "show" => semfam::show(&args),
        other => {
            eprintln!("unknown command {other}");
            std::process::exit(2);
        }
    }
}
