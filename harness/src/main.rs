fn main() { println!("{:?}", nederlang::verif::opcode_table().len()); }
