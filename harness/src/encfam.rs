use serde_json::{json, Value};
pub fn run_enc(_req: &Value) -> Value { json!({}) }
