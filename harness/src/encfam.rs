//! C15: the value encoding, through the public constructors and accessors of Object.

use crate::bigfam::{big_json, lattice};
use crate::Args;
use nederlang::object::{FromString, FromVec, Object, Type};
use nederlang::verif::GC;
use rand::rngs::StdRng;
use rand::{Rng, SeedableRng};
use serde_json::{json, Value};
use std::io::Write;
use std::panic::{catch_unwind, AssertUnwindSafe};

pub fn run_enc(_req: &Value) -> Value {
    json!({})
}

fn tyname(o: Object) -> String {
    o.tag().to_string()
}

fn limbs16(bits: u64) -> Vec<u64> {
    vec![bits & 0xffff, (bits >> 16) & 0xffff, (bits >> 32) & 0xffff, (bits >> 48) & 0xffff]
}

fn word(o: Object) -> Value {
    big_json(o.raw_bits() as u64 as i128)
}

fn rand_string(rng: &mut StdRng) -> String {
    let n = rng.gen_range(0..12);
    (0..n)
        .map(|_| match rng.gen_range(0..5) {
            0 => char::from_u32(rng.gen_range(32..127)).unwrap(),
            1 => char::from_u32(rng.gen_range(0xa0..0x800)).unwrap_or('é'),
            2 => char::from_u32(rng.gen_range(0x800..0xd000)).unwrap_or('日'),
            3 => char::from_u32(rng.gen_range(0x10000..0x1f000)).unwrap_or('😀'),
            _ => ['\0', '\n', '"', '\\'][rng.gen_range(0..4)],
        })
        .collect()
}

fn rand_array(rng: &mut StdRng, gc: &mut GC, depth: usize) -> Object {
    let n = rng.gen_range(0..4);
    let items: Vec<Object> = (0..n)
        .map(|_| match rng.gen_range(0..6) {
            0 if depth > 0 => rand_array(rng, gc, depth - 1),
            1 => Object::string(rand_string(rng), gc),
            2 => Object::bool(rng.gen()),
            3 => Object::null(),
            4 => Object::float(rng.gen_range(-100..100) as f64 / 4.0, gc),
            _ => Object::int(rng.gen_range(-1000..1000)),
        })
        .collect();
    Object::array(items, gc)
}

pub fn gen_enc(args: &Args) {
    crate::run::install_quiet_panic_hook();
    let seed = args.num("seed", 1);
    let n = args.num("n", 2000);
    let out = args.get("out", "/dev/stdout");
    let shard = args.num("shard", 0);
    let shards = args.num("shards", 1);
    let full = args.get("lattice", "quick") == "full";
    let first_id = args.num("first-id", 1);
    let mut f = std::io::BufWriter::new(std::fs::File::create(&out).expect("create out"));
    let mut rng = StdRng::seed_from_u64(seed * 131 + shard);
    let mut gc = GC::new();
    let mut recs: Vec<Value> = Vec::new();
    // integers: the lattice (shard 0 only) and random ones
    let mut ints: Vec<i64> = if shard == 0 { lattice(full) } else { vec![] };
    for _ in 0..n / 4 {
        let b = rng.gen_range(1..=60);
        ints.push(rng.gen_range(-(1i64 << b)..(1i64 << b)).clamp(crate::bigfam::MIN_INT, crate::bigfam::MAX_INT));
    }
    for v in &ints {
        let o = Object::int(*v as isize);
        recs.push(json!({"k":"int","v":big_json(*v as i128),"word":word(o),"dec":big_json(o.as_int() as i128),
            "tag":o.raw_bits() & 7,"type":tyname(o),"heap":o.is_heap_allocated()}));
    }
    if shard == 0 {
        for b in [true, false] {
            let o = Object::bool(b);
            recs.push(json!({"k":"bool","v":b,"word":word(o),"dec":o.as_bool(),"type":tyname(o),"heap":o.is_heap_allocated()}));
        }
        let o = Object::null();
        recs.push(json!({"k":"null","word":word(o),"type":tyname(o),"heap":o.is_heap_allocated()}));
        // function descriptors: complete cross product of the boundary sets
        let ips: [u32; 12] = [0, 1, 2, 255, 256, 65535, 65536, (1 << 31) - 1, 1 << 31, u32::MAX - 1, u32::MAX, 12345678];
        let nls: [u16; 10] = [0, 1, 2, 255, 256, 32767, 32768, 65534, 65535, 4242];
        for ip in ips {
            for nl in nls {
                let o = Object::function(ip, nl);
                let [dip, dnl] = o.as_function();
                recs.push(json!({"k":"fn","ip":big_json(ip as i128),"nl":nl,"word":word(o),"dec_ip":big_json(dip as i128),
                    "dec_nl":dnl,"type":tyname(o),"heap":o.is_heap_allocated()}));
            }
        }
    }
    // floats: random bit patterns, with the special ones
    let mut fbits: Vec<u64> = vec![0, 1 << 63, 0x7ff0000000000000, 0xfff0000000000000, 0x7ff8000000000000, 0x7ff0000000000001,
                                   1, 0x000fffffffffffff, 0x3ff0000000000000, 0xbff8000000000000];
    for _ in 0..n / 4 {
        fbits.push(rng.gen());
    }
    for b in &fbits {
        let o = Object::float(f64::from_bits(*b), &mut gc);
        recs.push(json!({"k":"float","bits":limbs16(*b),"dec_bits":limbs16(o.as_f64().to_bits()),"addr8":o.raw_bits() & !7 & 7,
            "tag":o.raw_bits() & 7,"type":tyname(o),"heap":o.is_heap_allocated()}));
    }
    for _ in 0..n / 4 {
        let s = rand_string(&mut rng);
        let o = Object::string(s.as_str(), &mut gc);
        let cp: Vec<u32> = s.chars().map(|c| c as u32).collect();
        let dcp: Vec<u32> = o.as_str().chars().map(|c| c as u32).collect();
        recs.push(json!({"k":"str","cp":cp,"dec_cp":dcp,"dec_len":o.as_str().chars().count(),"addr8":(o.raw_bits() >> 3 << 3) % 8,
            "tag":o.raw_bits() & 7,"type":tyname(o),"heap":o.is_heap_allocated()}));
    }
    for _ in 0..n / 8 {
        let o = rand_array(&mut rng, &mut gc, 2);
        let v = crate::proj::unfold(o, 6);
        // read back through as_vec: a second unfolding must see the same structure
        let copy: Vec<Object> = o.as_vec().clone();
        let o2 = Object::array(copy, &mut gc);
        recs.push(json!({"k":"arr","val":v,"dec":crate::proj::unfold(o2, 6),"addr8":(o.raw_bits() & !7) % 8,
            "tag":o.raw_bits() & 7,"type":tyname(o),"heap":o.is_heap_allocated()}));
    }
    // equality: complete cross product of a sample of scalars, texts and functions
    let mut sample: Vec<(String, String, Object, f64)> = Vec::new();
    // (the cross product is computed by shard 0 alone, over the whole sample)
    let k = if shard == 0 { args.num("eq-sample", 200) as usize } else { 0 };
    sample.push(("null".into(), "0".into(), Object::null(), 0.0));
    sample.push(("bool".into(), "ja".into(), Object::bool(true), 0.0));
    sample.push(("bool".into(), "nee".into(), Object::bool(false), 0.0));
    for v in [0i64, 1, 2, -1, 8, 10, crate::bigfam::MAX_INT, crate::bigfam::MIN_INT] {
        sample.push(("int".into(), v.to_string(), Object::int(v as isize), 0.0));
    }
    for (ip, nl) in [(0u32, 0u16), (0, 1), (1, 0), (1, 1), (65536, 0), (0, 65535), (8, 2)] {
        sample.push(("fn".into(), format!("{ip}/{nl}"), Object::function(ip, nl), 0.0));
    }
    // floats: special values, and neighbours one bit pattern apart (equality must be exact, not approximate)
    let mut fl: Vec<f64> = vec![0.0f64, -0.0, 1.0, 1.5, f64::NAN, f64::INFINITY, -1.0, 2.0, 10.0, 5e-324, 1e-320, 1e-17, 2e-17,
                                0.1 + 0.2, 0.3, f64::MIN_POSITIVE, f64::MAX];
    for x in [1.0f64, 0.1, 0.3, 1e-17, 123456.789, f64::MIN_POSITIVE, 1e300] {
        fl.push(f64::from_bits(x.to_bits() + 1));
        fl.push(f64::from_bits(x.to_bits() - 1));
        fl.push(-f64::from_bits(x.to_bits() + 1));
    }
    for x in fl {
        sample.push(("float".into(), x.to_bits().to_string(), Object::float(x, &mut gc), x));
    }
    for s in ["", "a", "b", "ab", "ac", "abc", "abd", "xbc", "ba", "é", "e", "éa", "1", "0", "ja", "10", "1.5", " ", "a ", "A"] {
        sample.push(("str".into(), s.to_string(), Object::string(s, &mut gc), 0.0));
    }
    while sample.len() < k {
        match rng.gen_range(0..3) {
            0 => {
                let v = rng.gen_range(-20i64..20);
                sample.push(("int".into(), v.to_string(), Object::int(v as isize), 0.0));
            }
            1 => {
                let s = rand_string(&mut rng);
                sample.push(("str".into(), s.clone(), Object::string(s, &mut gc), 0.0));
            }
            _ => {
                let x = rng.gen_range(-8..8) as f64 / 2.0;
                sample.push(("float".into(), x.to_bits().to_string(), Object::float(x, &mut gc), x));
            }
        }
    }
    if k == 0 {
        sample.clear();
    }
    for (i, (ka, keya, a, fa)) in sample.iter().enumerate() {
        for (j, (kb, keyb, b, fb)) in sample.iter().enumerate() {
            if ((i * sample.len() + j) as u64) % shards != shard && shards > 1 && false {
                continue;
            }
            let r = catch_unwind(AssertUnwindSafe(|| a == b));
            let eq = match r {
                Ok(e) => json!(e),
                Err(_) => json!("panic"),
            };
            // (keys as code points: TLC's own strings are not reliable beyond ASCII)
            let ca: Vec<u32> = keya.chars().map(|c| c as u32).collect();
            let cb: Vec<u32> = keyb.chars().map(|c| c as u32).collect();
            recs.push(json!({"k":"eq","x":{"kind":ka,"key":ca,"f":crate::bigfam::float_fields(*fa)},
                             "y":{"kind":kb,"key":cb,"f":crate::bigfam::float_fields(*fb)},"eq":eq}));
        }
    }
    for (i, mut r) in recs.into_iter().enumerate() {
        r["id"] = json!(first_id + i as u64);
        writeln!(f, "{}", r).unwrap();
    }
    std::mem::forget(gc);
}
