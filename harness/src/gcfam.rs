//! C03 / C04: the collector driven directly (replay of NlGC behaviours), and heap-ledger
//! records of whole evaluations, including every abort point.

use crate::ast::to_text;
use crate::gen::Gen;
use crate::pool::Worker;
use crate::run::RunOpts;
use crate::semfam::cfg_for;
use crate::Args;
use nederlang::object::{FromString, FromVec, Object};
use nederlang::verif::{self, Event, GC};
use serde_json::{json, Value};
use std::collections::BTreeMap;
use std::io::{BufRead, Write};
use std::time::Duration;

/// Replay one behaviour of NlGC on the real collector (worker op "gcops").
/// req.ops: [{op:[name, args...], live, managed, ...}]; the answer lists, after each
/// operation, the real collector's managed set and the live boxes, by model name.
pub fn run_gcops(req: &Value) -> Value {
    verif::reset();
    verif::record_heap(true);
    let mut gc: Option<GC> = Some(GC::new());
    let mut objs: BTreeMap<String, Object> = BTreeMap::new();
    let mut roots: Vec<(String, Object)> = Vec::new();
    let mut obs: Vec<Value> = Vec::new();
    let empty = vec![];
    for step in req["ops"].as_array().unwrap_or(&empty) {
        let op: Vec<String> = step["op"]
            .as_array()
            .unwrap_or(&empty)
            .iter()
            .map(|x| x.as_str().unwrap_or("").to_string())
            .collect();
        let name = op.first().map(|s| s.as_str()).unwrap_or("");
        let _ = verif::take_events();
        if gc.is_none() {
            gc = Some(GC::new());
        }
        let g = gc.as_mut().unwrap();
        match name {
            "alloc" => {
                let o = match op[2].as_str() {
                    "F" => Object::float(1.5, g),
                    "S" => Object::string("tekst", g),
                    _ => Object::array(Vec::<Object>::new(), g),
                };
                objs.insert(op[1].clone(), o);
                roots.push((op[1].clone(), o));
            }
            "link" => {
                let mut a = objs[&op[1]];
                let o = objs[&op[2]];
                a.as_vec_mut().push(o);
            }
            "unroot" => roots.retain(|(n, _)| n != &op[1]),
            "collect" => {
                let r: Vec<Object> = roots.iter().map(|(_, o)| *o).collect();
                g.run(&[r.as_slice()]);
            }
            "untrace" => g.untrace(objs[&op[1]]),
            "drop" => {
                gc = None; // Drop for GC
                roots.clear();
            }
            "callerfree" => objs[&op[1]].free(),
            _ => {}
        }
        let evs = verif::take_events();
        let mut double_free = 0;
        let mut dead_deref = 0;
        let mut mark_index = 0;
        for e in &evs {
            match e {
                Event::Free { dup: true, .. } => double_free += 1,
                Event::DeadDeref { .. } => dead_deref += 1,
                Event::MarkIndex { .. } => mark_index += 1,
                _ => {}
            }
        }
        let managed: Vec<String> = match gc.as_ref() {
            Some(g) => {
                let m = g.verif_managed();
                objs.iter()
                    .filter(|(_, o)| m.iter().any(|x| verif::shadow_id_of(*x) == verif::shadow_id_of(**o)))
                    .map(|(n, _)| n.clone())
                    .collect()
            }
            None => vec![],
        };
        let live: Vec<String> = objs
            .iter()
            .filter(|(_, o)| verif::shadow_is_live_obj(**o))
            .map(|(n, _)| n.clone())
            .collect();
        obs.push(json!({"live":live,"managed":managed,"double_free":double_free,
            "dead_deref":dead_deref,"mark_index":mark_index}));
    }
    // leave no collector behind that would release things later
    drop(gc);
    let _ = verif::take_fault();
    verif::record_heap(false);
    json!({"obs":obs})
}

/// Read NlGC behaviours (one JSON vector per line, as printed by TLC) and replay each
pub fn replay_gc(args: &Args) {
    let inp = args.get("in", "/dev/stdin");
    let out = args.get("out", "/dev/stdout");
    let first_id = args.num("first-id", 1);
    let f = std::io::BufReader::new(std::fs::File::open(&inp).expect("open in"));
    let mut o = std::fs::File::create(&out).expect("create out");
    let mut w = Worker::spawn(Duration::from_secs(20));
    let mut id = first_id;
    for line in f.lines() {
        let line = line.unwrap();
        let v: Value = match serde_json::from_str(&line) {
            Ok(v) => v,
            Err(_) => continue,
        };
        let r = w.request(&json!({"op":"gcops","ops":v["ops"]}));
        let obs = if r.get("obs").map(|x| x.is_array()).unwrap_or(false) {
            r["obs"].clone()
        } else {
            // the worker died: every step is reported as lost
            Value::Array(
                v["ops"]
                    .as_array()
                    .unwrap()
                    .iter()
                    .map(|_| json!({"live":[],"managed":[],"double_free":1,"dead_deref":0,"mark_index":0}))
                    .collect(),
            )
        };
        writeln!(o, "{}", json!({"id":id,"ops":v["ops"],"obs":obs})).unwrap();
        id += 1;
    }
}

/// Heap-ledger records: allocating programs, run to the end (mode "runs") or cut short by an
/// injected error after k instructions, for every k (mode "aborts")
pub fn gen_heap(args: &Args) {
    let seed = args.num("seed", 1);
    let n = args.num("n", 50);
    let mode = args.get("mode", "runs");
    let out = args.get("out", "/dev/stdout");
    let first_id = args.num("first-id", 1);
    let max_k = args.num("max-k", 120);
    let mut f = std::io::BufWriter::new(std::fs::File::create(&out).expect("create out"));
    let mut src = std::fs::File::create(format!("{out}.src")).expect("create src");
    let mut w = Worker::spawn(Duration::from_secs(15));
    let mut id = first_id;
    if mode == "runs" && args.num("directed", 0) > 0 {
        // directed programs: many live heap values without a single function return (a collector that decides for
        // itself when to run must find them all), fresh values as elements / arguments / operands while others are
        // pending, conversions that may hand back their argument, then function returns, then every value is read
        let texts = [
            "stel a = []; stel i = 0; zolang i < 130 { a = [string(i), 0.5 * float(i), [string(i), 1.5]]; i += 1 }; print(a); a",
            "stel a = [0, 0, 0]; stel i = 0; zolang i < 110 { a[i % 3] = [string(i), float(i) / 2.0]; i += 1 }; print(a); a",
            "stel s = \"\"; stel i = 0; stel b = []; zolang i < 120 { s = string(i); b = [s, b, string(i + 1)]; i += 1 }; stel n = 0; stel c = b; zolang lengte(c) == 3 { n += lengte(c[0]) + lengte(c[2]); c = c[1] }; print(b); n",
            "stel keten = []; stel i = 0; zolang i < 140 { keten = [keten, [string(i), 0.5 * float(i)], string(i * 2)]; i += 1 }; print(keten); stel m = 0; stel c = keten; zolang lengte(c) == 3 { stel paar = c[1]; m += lengte(paar[0]) + lengte(c[2]); c = c[0] }; m",
            "stel i = 0; stel k = [1.5]; zolang i < 160 { k = [k[0] + 0.25, string(k[0]), [float(i)]]; i += 1 }; print(k); k",
            "stel i = 0; stel t = 0; zolang i < 110 { t += lengte([string(i), [float(i), string(i)], 2.5 * float(i)]); i += 1 }; t",
            "functie f() { 1 }; stel t = string(\"abc\"); f(); print(t); stel u = float(2.5); f(); print(u); [t, u]",
            "functie f() { 1 }; stel s = string(5); stel t = string(s); f(); print(s); print(t); f(); [s, t, lengte(t)]",
            "functie f() { 1 }; stel x = float(float(\"1.5\")); stel y = float(x); f(); f(); [x, y, x + y]",
            "functie f() { 1 }; stel a = [string(\"a\"), float(0.5), string(string(7))]; f(); print(a); f(); a",
            "functie id(v) { v }; stel t = id(string(\"tekst\")); stel u = id(float(3.5)); id(0); [t, u, string(t), float(u)]",
            "functie f() { 1 }; stel i = 0; stel l = \"\"; zolang i < 5 { l = string(l); f(); i += 1 }; [l, lengte(l)]",
            // programs without a single text or number-with-a-point literal: at their collections NOTHING the run's
            // collector manages is reachable (literals are always roots), everything it manages is garbage
            "functie f() { stel a = [1, 2, 3]; 0 }; f(); f(); 1",
            "functie f(n) { stel a = [n, [n, n]]; stel s = string(n); lengte(a) + lengte(s) }; stel t = 0; stel i = 0; zolang i < 40 { t += f(i); i += 1 }; t",
            "functie g() { string(1); [string(2)]; 0 }; g(); g(); g()",
            "functie h() { [[], [[]]]; 0 }; h()",
            "functie f() { stel a = [1]; 0 }; f(); stel k = [2]; f(); stel m = [k, [3]]; f(); m = 0; f(); k",
            "functie f(v) { float(v) / float(2); 0 }; stel i = 0; zolang i < 30 { f(i); i += 1 }; i",
        ];
        let full = RunOpts { budget: Some(200_000), heap: true, release: true, ..Default::default() };
        for text in texts {
            let r = w.eval(text, &full);
            let mut rec = json!({"id":id,"fam":"runs-directed","k":-1,"heap":r.get("heap").cloned().unwrap_or(json!([])),
                "live_after":r.get("live_after").cloned().unwrap_or(json!([])),"obs":r["obs"]});
            if r.get("heap").is_none() {
                rec["heap"] = json!([]);
            }
            writeln!(f, "{}", rec).unwrap();
            writeln!(src, "{}", json!({"id":id,"text":text})).unwrap();
            id += 1;
        }
    }
    for i in 0..n {
        let mut g = Gen::new(seed.wrapping_mul(3_000_017).wrapping_add(i), cfg_for("alloc"));
        if mode == "aborts" {
            g.cfg.max_stmts = 6;
        }
        let prog = g.program();
        let text = to_text(&prog, true);
        let full = RunOpts { budget: Some(100_000), heap: true, release: true, ..Default::default() };
        let r = w.eval(&text, &full);
        let steps = r["obs"]["steps"].as_u64().unwrap_or(0);
        let mut emit = |r: &Value, k: i64, id: u64| {
            let mut rec = json!({"id":id,"fam":mode,"k":k,"heap":r.get("heap").cloned().unwrap_or(json!([])),
                "live_after":r.get("live_after").cloned().unwrap_or(json!([])),"obs":r["obs"]});
            if r.get("heap").is_none() {
                // the worker died or hung: no ledger; the observation class says so
                rec["heap"] = json!([]);
            }
            writeln!(f, "{}", rec).unwrap();
        };
        if mode == "sessions" {
            // a retained (Compiler, VM) pair: the ledger of the whole session, dropped at its end
            let s_ = seed.wrapping_mul(3_000_017).wrapping_add(i) ^ 0x5e5;
            let nl = 3 + (i % 8) as usize;
            let mut cfgd = crate::session::gen_session_texts(s_, nl);
            // heap values in every session: literals in rejected and failing lines, heap-valued globals
            cfgd.insert(0, "stel tekst_g = \"globaal\"; stel lijst_g = [1.5, \"in lijst\", [2.5]]".to_string());
            cfgd.insert(2.min(cfgd.len()), "print(\"hallo {}\", onbekende_naam, 2.25)".to_string());
            cfgd.insert(3.min(cfgd.len()), "stel kort = \"leeft kort\"; lijst_g[0] = 9.75; 1 / 0".to_string());
            // values of THIS line stored into an array of an EARLIER line, then collections (calls), then reads:
            // the collector of this run does not manage the old array but must keep what it now holds
            cfgd.insert(5.min(cfgd.len()), "functie verzamel() { [string(1), 2.5] }; lijst_g[1] = string(42); lijst_g[2] = [string(7), 0.5]; verzamel(); verzamel(); lijst_g".to_string());
            cfgd.insert(6.min(cfgd.len()), "functie niets() { 0 }; stel omvat = [lijst_g, string(3)]; niets(); stel binnen = omvat[0]; niets(); [binnen[1], omvat[1]]".to_string());
            cfgd.insert(7.min(cfgd.len()), "functie niets() { 0 }; niets(); print(lijst_g); lijst_g[1]".to_string());
            cfgd.push("print(\"hallo {}\", tekst_g, 2.25); lijst_g".to_string());
            cfgd.push("[tekst_g, lijst_g[2], \"in lijst\"][5]".to_string());
            cfgd.push("lengte(tekst_g) + lengte(lijst_g)".to_string());
            let lines: Vec<Value> = cfgd.iter().map(|t| json!({"text":t})).collect();
            let r = w.request(&json!({"op":"session","heap":true,"lines":lines}));
            let mut rr = r.clone();
            let worst = r["obs"].as_array().and_then(|a| a.iter().find(|o| o["class"] == "Panic" || o["class"] == "Fault").cloned());
            rr["obs"] = worst.unwrap_or(json!({"class": if r.get("heap").is_some() { "Value" } else { "Abort" },"out":[]}));
            emit(&rr, -2, id);
            writeln!(src, "{}", json!({"id":id,"text":cfgd.join("\n")})).unwrap();
            id += 1;
        } else if mode == "runs" {
            emit(&r, -1, id);
            writeln!(src, "{}", json!({"id":id,"text":text})).unwrap();
            id += 1;
        } else {
            let last = steps.min(max_k);
            for k in 0..=last {
                let o = RunOpts { budget: Some(k), heap: true, release: true, ..Default::default() };
                let rk = w.eval(&text, &o);
                emit(&rk, k as i64, id);
                writeln!(src, "{}", json!({"id":id,"text":text,"k":k})).unwrap();
                id += 1;
            }
        }
    }
}
