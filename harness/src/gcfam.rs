use serde_json::{json, Value};
pub fn run_gcops(_req: &Value) -> Value { json!({}) }
