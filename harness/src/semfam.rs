//! Program families validated against the reference semantics NlSem (C01 and friends).

use crate::ast::{flatten, to_text, Stmt};
use crate::gen::{Gen, GenCfg};
use crate::pool::Worker;
use crate::run::{RunOpts, DEFAULT_BUDGET};
use crate::Args;
use serde_json::{json, Value};
use std::io::Write;
use std::time::Duration;

pub fn cfg_for(family: &str) -> GenCfg {
    let mut c = GenCfg::default();
    match family {
        "calls" => {
            c.func_rate = 0.6;
            c.loop_rate = 0.1;
        }
        "control" => {
            c.loop_rate = 0.5;
            c.func_rate = 0.2;
        }
        "seq" => {
            c.array_rate = 0.5;
            c.string_rate = 0.4;
        }
        "alloc" => {
            // floats, strings, (nested) arrays and calls: every function return collects
            c.float_rate = 0.3;
            c.string_rate = 0.3;
            c.array_rate = 0.4;
            c.func_rate = 0.5;
            c.loop_rate = 0.15;
            c.max_stmts = 9;
        }
        "closed" => {
            // no function definitions: the whole program can be moved into a function body
            c.func_rate = 0.0;
            c.loop_rate = 0.3;
        }
        "fused" => {
            // integer work inside functions: variable-op-literal shapes in both orders
            c.func_rate = 0.6;
            c.float_rate = 0.03;
            c.string_rate = 0.05;
            c.array_rate = 0.05;
            c.loop_rate = 0.25;
        }
        "names" => {
            c.shadow_rate = 0.3;
            c.func_rate = 0.45;
            c.name_pool = true;
            c.stray_rate = 0.04;
            c.loop_rate = 0.1;
            c.float_rate = 0.05;
            c.string_rate = 0.05;
            c.array_rate = 0.05;
        }
        _ => {}
    }
    c
}

/// One record for TLC: the generated tree, and what the real interpreter did with its text.
pub fn record(id: u64, fam: &str, prog: &[Stmt], w: &mut Worker, opts: &RunOpts) -> (Value, String) {
    let text = to_text(prog, id % 2 == 0);
    let (nodes, root) = flatten(prog);
    let r = w.eval(&text, opts);
    let mut rec = json!({"id":id,"fam":fam,"nodes":nodes,"root":root});
    for (k, v) in r.as_object().unwrap() {
        rec[k] = v.clone();
    }
    // the tree the real parser builds must be the generated one (C07 is decided elsewhere;
    // here it only tells a parse divergence from an evaluation divergence)
    let p = w.parse(&text);
    let same = if p["ok"] == true {
        let t = &p["tree"];
        let pn = t["nodes"].as_array().cloned().unwrap_or_default();
        let pr = t["root"].as_array().cloned().unwrap_or_default();
        let rootv: Vec<Value> = root.iter().map(|i| json!(i)).collect();
        crate::ast::same_tree(&nodes, &rootv, &pn, &pr)
    } else {
        false
    };
    rec["parse_same"] = json!(same);
    (rec, text)
}

pub fn gen_sem(args: &Args) {
    let seed = args.num("seed", 1);
    let n = args.num("n", 100);
    let fam = args.get("family", "mixed");
    let out = args.get("out", "/dev/stdout");
    let first_id = args.num("first-id", 1);
    let mut f = std::fs::File::create(&out).expect("create out");
    let mut src = std::fs::File::create(format!("{out}.src")).expect("create src");
    let mut w = Worker::spawn(Duration::from_secs(10));
    let steps = args.num("steps", 0);
    let opts = RunOpts {
        budget: Some(args.num("budget", DEFAULT_BUDGET)),
        steps: steps > 0,
        max_events: steps as usize,
        bytecode: args.num("bytecode", 0) > 0,
        heap: args.num("heap", 0) > 0,
        release: args.num("heap", 0) > 0,
        ..Default::default()
    };
    for i in 0..n {
        let mut g = Gen::new(seed.wrapping_mul(1_000_003).wrapping_add(i), cfg_for(&fam));
        let prog = g.program();
        let (rec, text) = record(first_id + i, &fam, &prog, &mut w, &opts);
        writeln!(f, "{}", rec).unwrap();
        writeln!(src, "{}", json!({"id":first_id + i,"text":text})).unwrap();
    }
}

pub fn show(args: &Args) {
    let seed = args.num("seed", 1);
    let n = args.num("n", 3);
    let fam = args.get("family", "mixed");
    let mut w = Worker::spawn(Duration::from_secs(10));
    let opts = RunOpts {
        budget: Some(DEFAULT_BUDGET),
        ..Default::default()
    };
    for i in 0..n {
        let mut g = Gen::new(seed.wrapping_mul(1_000_003).wrapping_add(i), cfg_for(&fam));
        let prog = g.program();
        let text = to_text(&prog, false);
        let r = w.eval(&text, &opts);
        println!("---- {i}\n{text}\n=> {}", r["obs"]);
    }
}

// ---------------------------------------------------------------------------
// The repository's own corpus: test programs, README examples, examples/*.nl
// ---------------------------------------------------------------------------

/// All string literals of a Rust source file (plain and raw), unescaped
fn rust_string_literals(src: &str) -> Vec<String> {
    let b: Vec<char> = src.chars().collect();
    let mut out = Vec::new();
    let mut i = 0;
    while i < b.len() {
        // line comments
        if b[i] == '/' && i + 1 < b.len() && b[i + 1] == '/' {
            while i < b.len() && b[i] != '\n' {
                i += 1;
            }
            continue;
        }
        if b[i] == 'r' && i + 1 < b.len() && (b[i + 1] == '#' || b[i + 1] == '"') {
            // raw string r#"..."#
            let mut j = i + 1;
            let mut hashes = 0;
            while j < b.len() && b[j] == '#' {
                hashes += 1;
                j += 1;
            }
            if j < b.len() && b[j] == '"' {
                j += 1;
                let start = j;
                'scan: while j < b.len() {
                    if b[j] == '"' {
                        let mut k = 0;
                        while k < hashes && j + 1 + k < b.len() && b[j + 1 + k] == '#' {
                            k += 1;
                        }
                        if k == hashes {
                            out.push(b[start..j].iter().collect());
                            j += 1 + hashes;
                            break 'scan;
                        }
                    }
                    j += 1;
                }
                i = j;
                continue;
            }
        }
        if b[i] == '\'' {
            // char literal or lifetime: skip conservatively
            if i + 2 < b.len() && b[i + 2] == '\'' {
                i += 3;
                continue;
            }
            if i + 3 < b.len() && b[i + 1] == '\\' && b[i + 3] == '\'' {
                i += 4;
                continue;
            }
            i += 1;
            continue;
        }
        if b[i] == '"' {
            let mut j = i + 1;
            let mut s = String::new();
            while j < b.len() && b[j] != '"' {
                if b[j] == '\\' && j + 1 < b.len() {
                    match b[j + 1] {
                        'n' => s.push('\n'),
                        't' => s.push('\t'),
                        '\\' => s.push('\\'),
                        '"' => s.push('"'),
                        '\n' => {
                            // line continuation: skip following whitespace
                            j += 2;
                            while j < b.len() && b[j].is_whitespace() {
                                j += 1;
                            }
                            continue;
                        }
                        c => {
                            s.push('\\');
                            s.push(c);
                        }
                    }
                    j += 2;
                } else {
                    s.push(b[j]);
                    j += 1;
                }
            }
            out.push(s);
            i = j + 1;
            continue;
        }
        i += 1;
    }
    out
}

fn markdown_code_blocks(src: &str) -> Vec<String> {
    let mut out = Vec::new();
    let mut cur: Option<String> = None;
    for l in src.lines() {
        if l.trim_start().starts_with("```") {
            match cur.take() {
                Some(c) => out.push(c),
                None => cur = Some(String::new()),
            }
        } else if let Some(c) = cur.as_mut() {
            c.push_str(l);
            c.push('\n');
        }
    }
    out
}

pub fn corpus_texts() -> Vec<(String, String)> {
    let repo = std::env::var("NL_REPO").unwrap_or_else(|_| "/repo".to_string());
    let mut texts: Vec<(String, String)> = Vec::new();
    if let Ok(s) = std::fs::read_to_string(format!("{repo}/tests/vm_test.rs")) {
        for t in rust_string_literals(&s) {
            texts.push(("tests".into(), t));
        }
    }
    if let Ok(s) = std::fs::read_to_string(format!("{repo}/README.md")) {
        for t in markdown_code_blocks(&s) {
            texts.push(("readme".into(), t));
        }
    }
    if let Ok(rd) = std::fs::read_dir(format!("{repo}/examples")) {
        let mut paths: Vec<_> = rd.filter_map(|e| e.ok()).map(|e| e.path()).collect();
        paths.sort();
        for p in paths {
            if p.extension().map(|e| e == "nl").unwrap_or(false) {
                if let Ok(s) = std::fs::read_to_string(&p) {
                    texts.push(("examples".into(), s));
                }
            }
        }
    }
    texts.sort();
    texts.dedup();
    texts
}

/// Directed texts, written by hand around one theme each and validated like the corpus. They are complete small
/// grids (every body ending x every use of the value, every way of making an alias x every way of writing through it).
pub fn directed_texts(set: &str) -> Vec<(String, String)> {
    let mut v: Vec<(String, String)> = Vec::new();
    match set {
        "loop-values" => {
            // the value of a `zolang` used as an expression: the value of the body's last iteration (null when no
            // iteration ran, after `stop`, after `volgende`, when the body ends in a statement without a value)
            let endings = [
                ("expr", "i += 1; i * 10"),
                ("volgende-last", "i += 1; i * 10; volgende"),
                ("volgende-after-stel", "i += 1; stel t = i; volgende"),
                ("volgende-only", "i += 1; volgende"),
                ("stop-last", "i += 1; i * 10; stop"),
                ("stop-in-if", "i += 1; als i == 2 { stop }; i * 10"),
                ("stop-in-else", "i += 1; als i < 2 { i } anders { stop }; i * 10"),
                ("volgende-in-if", "i += 1; als i == 2 { volgende }; i * 10"),
                ("volgende-in-else-last", "i += 1; als i < 2 { i * 10 } anders { volgende }"),
                ("if-value-last", "i += 1; als i > 1 { i * 10 } anders { 0 - i }"),
                ("if-no-else-last", "i += 1; als i > 5 { i * 10 }"),
                ("stel-last", "i += 1; stel t = i * 10"),
                ("block-last", "i += 1; { i * 10 }"),
                ("empty-block-last", "i += 1; { }"),
                ("inner-loop-last", "i += 1; stel j = 0; zolang j < 2 { j += 1; j + i }"),
                ("inner-loop-volgende", "i += 1; stel j = 0; zolang j < 2 { j += 1; j + i; volgende }"),
                ("call-last", "i += 1; type(i)"),
            ];
            for n in [0, 1, 3] {
                for (name, body) in endings {
                    let lp = format!("zolang i < {n} {{ {body} }}");
                    v.push((format!("stel-{name}-{n}"), format!("stel i = 0; stel w = {lp}; print(w); print(type(w)); [w, i]")));
                    v.push((format!("last-{name}-{n}"), format!("stel i = 0; {lp}")));
                    v.push((format!("arg-{name}-{n}"), format!("stel i = 0; print(\"{{}} {{}}\", {lp}, i)")));
                    v.push((format!("branch-{name}-{n}"), format!("stel i = 0; stel w = als ja {{ {lp} }} anders {{ 7 }}; [w, type(w)]")));
                    v.push((format!("fn-{name}-{n}"), format!("functie f() {{ stel i = 0; {lp} }}; stel r = f(); [r, type(r)]")));
                    v.push((format!("array-{name}-{n}"), format!("stel i = 0; [1, {lp}, 2]")));
                }
            }
        }
        "aliases" => {
            // every way of making two names for one array x every way of writing through one of them
            let makes = [
                ("stel", "stel b = a;", "b"),
                ("assign", "stel b = 0; b = a;", "b"),
                ("literal", "stel m = [a, a];", "m[1]"),
                ("index-assign", "stel m = [[], 0, []]; m[1] = a;", "m[1]"),
                ("index-assign-into-empty-slot", "stel m = [[]]; m[0] = a;", "m[0]"),
                ("nested-slot", "stel binnen = [0]; stel m = [binnen]; binnen[0] = a; stel laag = m[0];", "laag[0]"),
                ("param", "functie zet(p) { p[1] = 77; 0 }; zet(a);", "a"),
                ("param-second", "functie zet(x, p) { p[1] = 77; 0 }; zet(1, a);", "a"),
                ("returned", "functie zelf(p) { p }; stel b = zelf(a);", "b"),
                ("via-global", "stel g = [a]; functie haal() { g[0] }; stel b = haal();", "b"),
                ("self-slot", "stel m = [0, 0]; m[0] = a; m[1] = m[0];", "m[1]"),
                ("empty-array", "stel e = []; stel m = [0]; m[0] = e; stel b = m[0];", "b"),
                ("loop-assign", "stel m = [0, 0, 0]; stel i = 0; zolang i < 3 { m[i] = a; i += 1 };", "m[2]"),
            ];
            let writes = [
                // (the target of an index assignment is `name[index]`: an alias that is not a plain name is
                // written through a temporary name for it)
                ("through-alias", "stel w_ = {alias}; w_[2] = 9;"),
                ("through-original", "a[2] = 9;"),
                ("negative-index", "stel w_ = {alias}; w_[-1] = 8;"),
                ("both", "a[0] = 4; stel w_ = {alias}; w_[1] = 6;"),
                ("computed-index", "stel w_ = {alias}; w_[lengte(a) - 3] = 5;"),
            ];
            for (mn, make, alias) in makes {
                for (wn, write) in writes {
                    let w = write.replace("{alias}", alias);
                    v.push((format!("{mn}-{wn}"), format!("stel a = [1, 2, 3]; {make} {w} print(a); print({alias}); [a, {alias}, lengte(a), lengte({alias})]")));
                }
                // a write that fails leaves both views unchanged
                v.push((format!("{mn}-out-of-range"), format!("stel a = [1, 2, 3]; {make} print({alias}); stel w_ = {alias}; w_[3] = 1; print(a)")));
            }
            // a text changed in place is still the text it now spells: equal to a fresh one, ordered like it, as long
            for (k, t) in ["stel s = \"kat\"; s[0] = \"r\"; [s == \"rat\", s != \"rat\", s == s, \"rat\" == s, s < \"rb\", s > \"ka\", lengte(s), s]",
                           "stel s = \"kat\"; stel t = \"rat\"; s[0] = \"r\"; [s == t, t == s, s != t, [s] , string(s) == t, type(s)]",
                           "stel s = \"abc\"; s[1] = \"é\"; [s == \"aéc\", lengte(s), s[1] == \"é\", s[2], s]",
                           "stel s = \"aéc\"; s[1] = \"b\"; [s == \"abc\", lengte(s), s[1], s[2], s]",
                           "functie zet(p) { p[0] = \"X\"; p == \"Xb\" }; stel s = \"ab\"; [zet(s), s == \"Xb\", s]",
                           "stel a = [\"ab\"]; stel s = a[0]; s[0] = \"z\"; [s == \"zb\", a[0] == \"zb\", a[0] == s, a]"].iter().enumerate() {
                v.push((format!("text-eq-{k}"), t.to_string()));
            }
            // texts are values, not shared: a change through one name is not seen through another
            for (mn, make, alias) in [("stel", "stel b = s;", "b"), ("literal", "stel m = [s, s];", "m[0]"), ("index-assign", "stel m = [0]; m[0] = s;", "m[0]")] {
                v.push((format!("text-{mn}"), format!("stel s = \"abc\"; {make} s[0] = \"x\"; print(s); print({alias}); [s, {alias}]")));
            }
        }
        "effects-order" => {
            // every composite construct with operands that announce their evaluation: the order of the
            // printed lines and the point at which an error strikes are part of what a program means
            let pre = "stel spoor_n = 0; functie spoor(k) { spoor_n = spoor_n * 10 + k; print(\"op {}\", k); k }; \
                       functie waar(k) { print(\"op {}\", k); ja }; functie onwaar(k) { print(\"op {}\", k); nee }; stel a = [10, 20, 30]; stel x = 5; \
                       functie zet(k) { x = k; k }; functie a_zet(i, k) { a[i] = k; k };";
            let exprs = [
                "spoor(1) + spoor(2) * spoor(3)", "spoor(1) - (spoor(2) - spoor(3))", "spoor(3) / spoor(1) % spoor(2)",
                "spoor(1) < spoor(2)", "spoor(2) == spoor(2)", "spoor(1) != spoor(2)", "spoor(2) >= spoor(1)",
                "waar(1) && onwaar(2)", "onwaar(1) && waar(2)", "waar(1) || onwaar(2)", "onwaar(1) || waar(2)",
                "onwaar(1) && waar(2) || waar(3)", "!waar(1) || !onwaar(2)",
                "a[spoor(1)]", "a[spoor(1) - spoor(1)]", "[spoor(1), spoor(2), spoor(3)]", "[spoor(1), [spoor(2)], spoor(3)]",
                "a[spoor(0)] = spoor(2)", "a[spoor(1)] = a[spoor(2)]", "x = spoor(4)", "x += spoor(4)", "x = x + spoor(1) * spoor(2)",
                "lengte([spoor(1), spoor(2)])", "string(spoor(1)) == string(spoor(1))", "type(spoor(1) + spoor(2))",
                "print(\"{} {}\", spoor(1), spoor(2))", "als waar(1) { spoor(2) } anders { spoor(3) }", "als onwaar(1) { spoor(2) } anders als waar(3) { spoor(4) }",
                "-spoor(1) + spoor(2)", "spoor(1) + -spoor(2)",
                // an operand that changes a variable the other operand reads: the left operand is read first
                "x + zet(7)", "zet(7) + x", "x * zet(3)", "x == zet(5)", "x != zet(5)", "x - zet(2)", "x < zet(9)", "x + (x = 2)", "(x = 2) + x",
                "a[0] + a_zet(0, 99)", "[x, zet(8), x]", "x + zet(1) + x",
                // an error in the middle: everything before it has happened, nothing after it
                "spoor(1) + waar(2) + spoor(3)", "[spoor(1), spoor(2) / 0, spoor(3)]", "a[spoor(7)] = spoor(2)", "a[spoor(1)] = spoor(2) + ja",
                "print(\"{} {}\", spoor(1), 1 / 0, spoor(3))", "spoor(1) / (spoor(2) - spoor(2))", "int(\"x\") + spoor(1)", "spoor(1) + int(\"x\")",
            ];
            for (k, e) in exprs.iter().enumerate() {
                v.push((format!("expr-{k}"), format!("{pre} stel r = {e}; print(\"r\"); [r, spoor_n, a, x]")));
                v.push((format!("stmt-{k}"), format!("{pre} {e}; [spoor_n, a, x]")));
                v.push((format!("fn-{k}"), format!("{pre} functie f(p, q) {{ stel l = {e}; [l, p, q] }}; [f(1, 2), spoor_n]")));
            }
            // what a function is worth when its last statement is not a plain expression
            for (k, body) in ["n += 1", "n = n * 2", "stel t = n + 1", "stel t = 0; t = n + 5", "als n > 0 { n += 10 } anders { n -= 10 }",
                              "als n > 0 { stel t = n; t += 1 }", "zolang n < 3 { n += 1 }", "{ n += 2 }", "a[0] = n", "a[0] = n; n"].iter().enumerate() {
                v.push((format!("fn-last-{k}"), format!("stel a = [0]; functie f(n) {{ {body} }}; stel r = f(1); print(r); [r, f(-5), type(f(2)), a]")));
            }
            // what a program is worth when its last statement is not an expression
            for (k, last) in ["stel z = 3", "zolang nee { 1 }", "{ }", "{ 4 }", "als nee { 1 }", "functie g() { 1 }", "x = 9", "x += 1", "stel z = als ja { 6 }"].iter().enumerate() {
                v.push((format!("last-{k}"), format!("stel x = 5; print(\"voor\"); {last}")));
            }
        }
        "slots" => {
            // many variables in nested blocks of every kind, inside and outside functions: every variable has a value
            // of its own that is checked after the inner blocks have come and gone
            let bodies = [
                "stel a = 1; als p > 0 { stel b = 2; zolang b < 4 { stel c = b * 10; b += 1; { stel d = c + 1; a += d } }; stel e = 5; a += e }; stel g = 7; [a, g, p]",
                "stel a = 1; { stel b = 2; { stel c = 3; { stel d = 4; a = a + b + c + d } }; stel e = 50; a += e }; { stel f = 600; a += f }; stel g = 7000; [a, g]",
                "stel a = 1; als p > 0 { stel b = 10 } anders { stel c = 20; a += c }; stel d = 300; als p > 0 { stel e = 4000; a += e + d } anders { stel f = 50000; a += f }; [a, d]",
                "stel t = 0; stel i = 0; zolang i < 3 { stel v = i * 2; { stel w = v + 1; t += w }; stel u = 100; t += u; i += 1 }; stel na = 9; [t, i, na]",
                "stel x = 1; { stel x = 10; x += 5; print(x); { stel x = 100; x += 1; print(x) }; print(x) }; x += 2; x",
                "stel x = 1; als p > 0 { stel x = 2; als p > 0 { stel x = 3; print(x) }; print(x) }; stel y = x + 10; [x, y]",
                "stel s = 0; stel i = 0; zolang i < 2 { stel j = 0; zolang j < 2 { stel k = i * 10 + j; s += k; j += 1 }; stel m = 1000; s += m; i += 1 }; [s, i]",
                "stel a = 1; stel b = 2; functie binnen(q) { stel a = q * 2; stel c = a + 1; { stel d = c + 1; a += d }; [a, c, q] }; stel r = binnen(b); { stel c = 99; a += c }; [a, b, r]",
                "stel x = 1; stel y = x + 1; stel x = y * 10; { stel y = x + 5; print(y) }; stel z = x + y; [x, y, z]",
                "stel a = 1; zolang a < 3 { stel b = a; als b == 1 { stel c = 7; a += c - 6 } anders { stel d = 9; a += d }; stel e = b; print(e) }; a",
            ];
            for (k, b) in bodies.iter().enumerate() {
                // at top level (globals) ...
                v.push((format!("top-{k}"), format!("stel p = 1; {b}")));
                v.push((format!("top0-{k}"), format!("stel p = 0; {b}")));
                // ... and as a function body (locals), called twice and from inside another function's locals
                v.push((format!("fn-{k}"), format!("functie f(p) {{ {b} }}; print(f(1)); f(0)")));
                v.push((format!("fnfn-{k}"), format!("functie f(p) {{ {b} }}; functie h(u, v) {{ stel w = u + v; stel r1 = f(u); stel z = w * 2; [r1, w, z, u, v] }}; h(1, 0)")));
            }
        }
        _ => {}
    }
    v
}

/// Records for the corpus: the tree is the one the real parser builds (texts it rejects
/// are kept out: without a tree the reference semantics has nothing to evaluate).
pub fn gen_corpus(args: &Args) {
    let out = args.get("out", "/dev/stdout");
    let first_id = args.num("first-id", 1);
    let mut f = std::fs::File::create(&out).expect("create out");
    let mut src = std::fs::File::create(format!("{out}.src")).expect("create src");
    let mut w = Worker::spawn(Duration::from_secs(20));
    let opts = RunOpts {
        budget: Some(args.num("budget", DEFAULT_BUDGET)),
        ..Default::default()
    };
    let mut id = first_id;
    let set = args.get("set", "");
    let texts = if set.is_empty() { corpus_texts() } else { directed_texts(&set) };
    let shard = args.num("shard", 0);
    let shards = args.num("shards", 1);
    for (k, (origin, text)) in texts.into_iter().enumerate() {
        if (k as u64) % shards != shard {
            continue;
        }
        let p = w.parse(&text);
        if p["ok"] != true {
            if !set.is_empty() {
                eprintln!("directed text does not parse ({origin}): {text}");
                std::process::exit(1);
            }
            continue;
        }
        let r = w.eval(&text, &opts);
        let mut rec = json!({"id":id,"fam":format!("corpus-{origin}"),
            "nodes":p["tree"]["nodes"],"root":p["tree"]["root"],"parse_same":true});
        for (k, v) in r.as_object().unwrap() {
            rec[k] = v.clone();
        }
        writeln!(f, "{}", rec).unwrap();
        writeln!(src, "{}", json!({"id":id,"text":text})).unwrap();
        id += 1;
    }
}

// ---------------------------------------------------------------------------
// C06 (operators): every operator on every pair of value exemplars of every type
// ---------------------------------------------------------------------------
use crate::ast::{b, call, id, infix, Expr};

pub fn exemplars() -> Vec<(&'static str, Expr)> {
    let neg = |e: Expr| Expr::Prefix("-", b(e));
    vec![
        ("null", Expr::If { c: b(Expr::Bool(false)), th: vec![Stmt::Expr(Expr::Int(1))], el: None }),
        ("bool", Expr::Bool(true)),
        ("bool", Expr::Bool(false)),
        ("int", Expr::Int(0)),
        ("int", Expr::Int(7)),
        ("int", neg(Expr::Int(3))),
        ("int", Expr::Int(1)),
        ("float", Expr::Float { m: 0, e: 0 }),
        ("float", Expr::Float { m: 3, e: 1 }),
        ("float", neg(Expr::Float { m: 9, e: 2 })),
        ("float", Expr::Float { m: 1, e: 0 }),
        ("float", Expr::Float { m: 7, e: 0 }),
        ("str", Expr::Str(String::new())),
        ("str", Expr::Str("a".into())),
        ("str", Expr::Str("ab".into())),
        ("str", Expr::Str("b".into())),
        ("str", Expr::Str("B".into())),
        ("str", Expr::Str("é".into())),
        ("str", Expr::Str("z".into())),
        ("str", Expr::Str("😀".into())),
        ("arr", Expr::Array(vec![])),
        ("arr", Expr::Array(vec![Expr::Int(1)])),
        // (a function literal can not stand to the left of an operator: the grammar rejects it)
        ("fn", id("g2")),
        ("fn", id("g")),
    ]
}

pub const ALL_OPS: [&str; 13] = ["+", "-", "*", "/", "%", "<", "<=", ">", ">=", "==", "!=", "&&", "||"];

pub fn gen_ops(args: &Args) {
    let out = args.get("out", "/dev/stdout");
    let shard = args.num("shard", 0);
    let shards = args.num("shards", 1);
    let first_id = args.num("first-id", 1);
    let mut f = std::fs::File::create(&out).expect("create out");
    let mut src = std::fs::File::create(format!("{out}.src")).expect("create src");
    let mut w = Worker::spawn(Duration::from_secs(10));
    let opts = RunOpts { budget: Some(50_000), ..Default::default() };
    let ex = exemplars();
    let g1 = Stmt::Expr(Expr::Func { name: "g".into(), params: vec![], body: vec![Stmt::Expr(Expr::Int(2))] });
    let g2 = Stmt::Expr(Expr::Func { name: "g2".into(), params: vec![], body: vec![Stmt::Expr(Expr::Int(1))] });
    let mut id_ = first_id;
    let mut k = 0u64;
    for (_, a) in &ex {
        for (_, bb) in &ex {
            for op in ALL_OPS {
                for form in 0..3 {
                    k += 1;
                    if k % shards != shard {
                        continue;
                    }
                    // form 0: a op b ; form 1: variable op b inside a function ; form 2: a op variable
                    let prog: Vec<Stmt> = match form {
                        0 => vec![g1.clone(), g2.clone(), Stmt::Expr(infix(op, a.clone(), bb.clone()))],
                        1 => vec![
                            g1.clone(),
                            g2.clone(),
                            Stmt::Expr(Expr::Func { name: "h".into(), params: vec!["x".into()],
                                body: vec![Stmt::Expr(infix(op, id("x"), bb.clone()))] }),
                            Stmt::Expr(call("h", vec![a.clone()])),
                        ],
                        _ => vec![
                            g1.clone(),
                            g2.clone(),
                            Stmt::Expr(Expr::Func { name: "h".into(), params: vec!["x".into()],
                                body: vec![Stmt::Expr(infix(op, a.clone(), id("x")))] }),
                            Stmt::Expr(call("h", vec![bb.clone()])),
                        ],
                    };
                    let (rec, text) = record(id_, "ops", &prog, &mut w, &opts);
                    writeln!(f, "{}", rec).unwrap();
                    writeln!(src, "{}", json!({"id":id_,"text":text})).unwrap();
                    id_ += 1;
                }
            }
        }
    }
}


// ---------------------------------------------------------------------------
// C11: loops run for very many iterations; only the back edges are recorded
// ---------------------------------------------------------------------------
pub fn long_loop_programs() -> Vec<(String, String)> {
    let n = 70000;
    vec![
        ("top-level counting loop".into(),
         format!("stel i = 0; stel s = 0; zolang i < {n} {{ i += 1; s = s + i % 7; }}; s")),
        ("volgende on every other iteration".into(),
         format!("stel i = 0; stel s = 0; zolang i < {n} {{ i += 1; als i % 2 == 0 {{ volgende; }}; s += 1; }}; functie plus(a, b) {{ a + b }}; plus(s, 2)")),
        ("stop out of an endless loop, loop inside a function, value used".into(),
         format!("functie tel(n) {{ stel k = 0; zolang ja {{ k += 1; als k >= n {{ stop; }}; als k % 3 == 0 {{ volgende; }}; {{ }}; k; }}; k }}; tel({n}) + tel(5)")),
        ("nested loops with blocks and if-values".into(),
         format!("stel i = 0; stel t = 0; zolang i < {m} {{ i += 1; stel j = 0; zolang j < 300 {{ j += 1; t += als j % 2 == 0 {{ 1; }} anders {{ {{ }}; 2; }}; als j == 299 {{ stop; }}; }}; }}; t", m = n / 280)),
    ]
}

pub fn gen_loops(args: &Args) {
    let out = args.get("out", "/dev/stdout");
    let first_id = args.num("first-id", 1);
    let mut f = std::fs::File::create(&out).expect("create out");
    let mut src = std::fs::File::create(format!("{out}.src")).expect("create src");
    let mut w = Worker::spawn(Duration::from_secs(120));
    let jump: u8 = nederlang::verif::opcode_table()
        .iter()
        .find(|(_, n, _)| n == "Jump")
        .map(|(b, _, _)| *b)
        .unwrap_or(19);
    let opts = RunOpts {
        budget: Some(50_000_000),
        steps: true,
        max_events: 160_000,
        step_filter: vec![jump],
        bytecode: true,
        ..Default::default()
    };
    let mut id = first_id;
    for (what, text) in long_loop_programs() {
        let r = w.eval(&text, &opts);
        let mut rec = json!({"id":id,"fam":"long-loop","what":what,"mode":"backedge"});
        for (k, v) in r.as_object().unwrap() {
            rec[k] = v.clone();
        }
        if rec.get("bc").is_none() {
            rec["bc"] = json!({"code":[],"consts":[]});
            rec["steps"] = json!([]);
        }
        writeln!(f, "{}", rec).unwrap();
        writeln!(src, "{}", json!({"id":id,"text":text})).unwrap();
        id += 1;
    }
}
