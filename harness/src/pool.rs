//! Isolated worker: a child process that evaluates one request at a time.
//! A panic, abort, wild write or hang in code under test is data, never a harness failure.

use crate::run::{self, RunOpts};
use serde_json::{json, Value};
use std::io::{BufRead, BufReader, Write};
use std::process::{Child, ChildStdin, Command, Stdio};
use std::sync::mpsc::{channel, Receiver};
use std::time::Duration;

fn opts_from(v: &Value) -> RunOpts {
    RunOpts {
        budget: v.get("budget").and_then(|b| b.as_u64()),
        steps: v.get("steps").and_then(|b| b.as_bool()).unwrap_or(false),
        max_events: v
            .get("max_events")
            .and_then(|b| b.as_u64())
            .unwrap_or(20000) as usize,
        step_filter: v
            .get("step_filter")
            .and_then(|b| b.as_array())
            .map(|a| a.iter().map(|x| x.as_u64().unwrap_or(0) as u8).collect())
            .unwrap_or_default(),
        heap: v.get("heap").and_then(|b| b.as_bool()).unwrap_or(false),
        bytecode: v.get("bytecode").and_then(|b| b.as_bool()).unwrap_or(false),
        release: v.get("release").and_then(|b| b.as_bool()).unwrap_or(false),
    }
}

pub fn opts_json(o: &RunOpts) -> Value {
    let mut v = json!({"steps":o.steps,"max_events":o.max_events,"step_filter":o.step_filter,
        "heap":o.heap,"bytecode":o.bytecode,"release":o.release});
    if let Some(b) = o.budget {
        v["budget"] = json!(b);
    }
    v
}

/// The server side: read one JSON request per line, answer with one JSON line.
pub fn worker_main() {
    run::install_quiet_panic_hook();
    let stdin = std::io::stdin();
    let stdout = std::io::stdout();
    for line in stdin.lock().lines() {
        let line = match line {
            Ok(l) => l,
            Err(_) => break,
        };
        let req: Value = match serde_json::from_str(&line) {
            Ok(v) => v,
            Err(_) => continue,
        };
        let op = req["op"].as_str().unwrap_or("");
        let text = req["text"].as_str().unwrap_or("");
        let resp = match op {
            "eval" => run::run_eval(text, &opts_from(&req)),
            "parse" => run::parse_tree(text),
            "tokens" => crate::lexfam::tokens_json(text),
            "parseraw" => crate::parsefam::parse_raw(text),
            "session" => crate::session::run_session(&req),
            "threads" => crate::purefam::run_threads(&req),
            "gcops" => crate::gcfam::run_gcops(&req),
            "enc" => crate::encfam::run_enc(&req),
            _ => json!({"error":"unknown op"}),
        };
        let mut o = stdout.lock();
        let _ = writeln!(o, "{}", resp);
        let _ = o.flush();
    }
}

pub struct Worker {
    child: Child,
    stdin: ChildStdin,
    rx: Receiver<Option<String>>,
    pub timeout: Duration,
    pub restarts: u64,
}

impl Worker {
    pub fn spawn(timeout: Duration) -> Worker {
        let exe = std::env::current_exe().unwrap();
        // address-space limit through the shell; the child re-executes this binary
        let mut child = Command::new("sh")
            .arg("-c")
            .arg(format!(
                "ulimit -v 8000000; exec '{}' worker",
                exe.display()
            ))
            .stdin(Stdio::piped())
            .stdout(Stdio::piped())
            .stderr(Stdio::null())
            .spawn()
            .expect("spawn worker");
        let stdin = child.stdin.take().unwrap();
        let stdout = child.stdout.take().unwrap();
        let (tx, rx) = channel();
        std::thread::spawn(move || {
            let r = BufReader::new(stdout);
            for l in r.lines() {
                match l {
                    Ok(l) => {
                        if tx.send(Some(l)).is_err() {
                            return;
                        }
                    }
                    Err(_) => break,
                }
            }
            let _ = tx.send(None);
        });
        Worker {
            child,
            stdin,
            rx,
            timeout,
            restarts: 0,
        }
    }

    fn respawn(&mut self) {
        let _ = self.child.kill();
        let _ = self.child.wait();
        let n = self.restarts + 1;
        *self = Worker::spawn(self.timeout);
        self.restarts = n;
    }

    /// Send one request; a crash or hang of the worker becomes an observation.
    pub fn request(&mut self, req: &Value) -> Value {
        if writeln!(self.stdin, "{}", req).is_err() || self.stdin.flush().is_err() {
            self.respawn();
            return json!({"obs":{"class":"Abort","msg":"worker not accepting input","out":[]}});
        }
        match self.rx.recv_timeout(self.timeout) {
            Ok(Some(l)) => serde_json::from_str(&l)
                .unwrap_or(json!({"obs":{"class":"Abort","msg":"bad worker output","out":[]}})),
            Ok(None) => {
                let status = self
                    .child
                    .wait()
                    .map(|s| format!("{s}"))
                    .unwrap_or_default();
                self.respawn();
                json!({"obs":{"class":"Abort","msg":status,"out":[]}})
            }
            Err(_) => {
                self.respawn();
                json!({"obs":{"class":"Timeout","out":[]}})
            }
        }
    }

    pub fn eval(&mut self, text: &str, opts: &RunOpts) -> Value {
        let mut req = opts_json(opts);
        req["op"] = json!("eval");
        req["text"] = json!(text);
        self.request(&req)
    }

    pub fn parse(&mut self, text: &str) -> Value {
        self.request(&json!({"op":"parse","text":text}))
    }
}

impl Drop for Worker {
    fn drop(&mut self) {
        let _ = self.child.kill();
        let _ = self.child.wait();
    }
}
