//! C05: every input yields a value or a documented error; nothing crashes or hangs.

use crate::ast::to_text;
use crate::bcfam::{mutate_tokens, random_tokens, token_texts};
use crate::gen::Gen;
use crate::pool::Worker;
use crate::run::RunOpts;
use crate::semfam::cfg_for;
use crate::Args;
use rand::rngs::StdRng;
use rand::{Rng, SeedableRng};
use serde_json::{json, Value};
use std::io::Write;
use std::process::{Command, Stdio};
use std::time::{Duration, Instant};

/// The directed boundary corpus
pub fn directed() -> Vec<(String, String)> {
    let mut v: Vec<(String, String)> = Vec::new();
    let mut add = |k: &str, t: String| v.push((k.to_string(), t));
    for t in [
        "99999999999999999999", "1152921504606846976", "1152921504606846975 + 1", "-1152921504606846976",
        "9223372036854775807", "9223372036854775808", "1 / 0", "1 % 0", "0 / 0", "1.0 / 0.0", "0.0 / 0.0", "1.0 % 0.0",
        "int(1.0 / 0.0)", "int(0.0 / 0.0)", "int(\"99999999999999999999\")", "float(\"1e999\")", "int(\"\")",
        "functie f() { 1 } f(1, 2)", "functie f(a, b) { a } f()", "functie f(a) { a } f(1, 2, 3, 4, 5)",
        "antwoord 1", "stop", "volgende", "functie f() { stop } f()", "zolang ja { functie f() { stop } f() }",
        "zolang ja { functie f() { volgende } f(); stop }",
        "stel x = x", "stel x = x + 1", "functie f() { stel y = y; y } f()", "stel f = f()",
        "\"é\"[1]", "\"é\"[-1]", "\"😀a\"[1]", "stel s = \"éa\"; s[1] = \"x\"; s", "\"\"[0]",
        "stel a = [1]; a[0] = a; print(a)", "stel a = [1]; a[0] = a; string(a)", "stel a = [1]; a[0] = a; a == a",
        "stel a = [1]; a[0] = a; a",
        "stel s = \"ab\"; s[0] = s; s", "stel s = \"ab\"; s[1] = s; s[0] = s; lengte(s)",
        "[1] == [1]", "[] < []", "functie f() {} functie g() {} f < g", "print == print", "print", "stel print = 1; print(2)",
        "stel lengte = functie(x) { 1 }; lengte([1, 2])", "1(2)", "\"a\"(1)", "[1][0](2)", "ja[0]", "1[0] = 2",
        "functie (", "functie(1)", "functie f(", "functie f(a,", "als", "als ja", "als ja {", "zolang", "zolang ja {", "stel", "stel x", "stel x =",
        "(", ")", "((", "[", "[1,", "{", "}", "1 +", "+ 1", "1 + + 2", "!", "-", "a.b", "1 ^ 2", "&", "|", "1 & 2", "№", "\"abc", "\"abc\\",
        "// alleen commentaar", "", " ", "\n\n", ";", ";;", ",",
        // where a statement ends, what a suffix attaches to, separators that are optional or missing
        "functie f(p) { p }(21)", "functie(p) { p }(21)", "stel x = functie(p) { p }(21); x", "1 + functie(p) { p }(2)",
        "functie f() { 1 }\n(2)", "functie f() { 1 };(2)", "als ja { 1 } anders { 2 }(3)", "als ja { 1 }\n[2]", "zolang nee { }\n-1",
        "{ 1 }\n(2)", "{ 1 }[0]", "stel a = [1,2]\n[0]", "stel a = 1\n-1", "stel a = 1\n(2)", "stel a = 1; a\n(1)", "[1][0][0]",
        "functie f(x) { f } f(1)(2)", "functie f(x) { [x] } f(1)[0]", "stel a = [print]; a[0](1)", "stel a = [[1]]; a[0][0]",
        "functie f(x) { x } (f)(1)", "stel a = [1]; (a)[0]", "\"ab\"[0]", "[1,2][1]", "stel a = [1]; -a[0]", "functie f(x) { ja } !f(1)", "functie f(x) { x } -f(1) * 2",
        "stel a = 1; stel b = 2; a = b = 3", "stel a = 0; 1 + (a = 2)",
        "als ja { 1 } anders als nee { 2 } anders als ja { 3 } anders { 4 }", "als ja { als nee { 1 } anders { 2 } }", "als ja { als nee { 1 } } anders { 2 }", "als ja { } anders { }",
        "functie f(a,) { a }", "print(1,)", "[1,]", "[,1]", "print(,)", "stel x = 1;;", "{ { } }", "{ ; }", ";1", "als ja { 1 };anders { 2 }", "anders { 1 }", "als ja { 1 } anders",
        "functie f(a a) { a }", "print(1 2)", "[1 2]", "stel x = 1 stel y = 2; x + y", "1 2", "stel a = 1; stel b = 2; a b", "stel x = 0; x = = 1", "1 == == 2", "1 < 2 < 3", "1 == 2 == nee",
        "- - 1", "! ! ja", "-!ja", "!-1", "stel a = 1; stel b = 1; a += b += 1", "stel a = 1; stel b = 5; a += 1 + b", "stel a = 1; a += 2 * 3 - 1; a", "stel a = 2; a *= a += 1",
        // things that look like syntax of other languages: openers without their closers
        "/*", "/* x", "1 /* 2", "/* */", "/**/ 1", "1 */ 2", "<!--", "#", "# x", "'a'", "'", "`a`", "\"\"\"", "\"\"\" x", "${", "@x", "\\", "1 \\\n 2",
        "0x", "0x1F", "1e", "1e5", "1_000", "1..2", "..", "1.", ".5", "1.2.3", "a..b", "::", "->", "=>", "a ? b : c", "<<", ">>", "**",
        "functie f() { f() } f()", "functie f(n) { f(n + 1) } f(0)", "zolang ja { }", "zolang ja { stel a = [1, 2, 3] }",
        "stel a = 0; zolang a < 100000 { a += 1 } a",
        "1 = 2", "a = 1", "stel a = 1; a = ", "stel a = 1; a += ", "stel a = 1; a +=", "a += 1",
        "als 1 { 2 }", "zolang 1 { 2 }", "!1", "-ja", "-\"a\"", "ja && 1", "1 || nee",
        "print(print(print()))", "type()", "type(1, 2)", "bool()", "lengte()", "lengte(1)", "string([1])", "float([])", "int(print)",
    ] {
        add("directed", t.to_string());
    }
    for t in crate::bcfam::placement_corners() {
        add("directed", t);
    }
    // error messages that quote a long argument: multi-byte characters at every offset around the places where a
    // message might be cut
    for off in 24usize..=40 {
        let t: String = "x".repeat(off) + "€ en nog wat tekst erachter 😀 tot het eind";
        add("directed", format!("int(\"{t}\")"));
        add("directed", format!("float(\"{t}\")"));
        add("directed", format!("stel a = [1]; a[\"{t}\"]"));
        add("directed", format!("onbekend_{}", "é".repeat(off)));
        add("directed", format!("lengte(1, \"{t}\")"));
    }
    // every text literal body of up to three characters over quotes, backslashes, escape letters, characters of two, three
    // and four bytes, a brace and a line feed (closed, and - where the body ends in an odd number of backslashes or holds
    // a bare quote - unclosed or followed by leftovers); and the same bodies as comments
    let alpha = ['a', '"', '\\', 'n', 't', 'é', '€', '😀', ' ', '{', '\n'];
    let mut bodies: Vec<String> = vec![String::new()];
    let mut last: Vec<String> = vec![String::new()];
    for _ in 0..3 {
        let mut next = Vec::new();
        for b in &last {
            for c in alpha {
                let mut t = b.clone();
                t.push(c);
                next.push(t);
            }
        }
        bodies.extend(next.iter().cloned());
        last = next;
    }
    for b in &bodies {
        add("string-bodies", format!("\"{b}\""));
        if b.chars().count() <= 2 {
            add("string-bodies", format!("lengte(\"{b}\") // {b}\n1"));
            add("string-bodies", format!("// {b}"));
        }
    }
    // deep nesting, long programs, huge literals
    for d in [50usize, 500, 3000, 20000] {
        add("deep-parens", format!("{}1{}", "(".repeat(d), ")".repeat(d)));
        add("deep-prefix", format!("{}1", "-".repeat(d)));
        add("deep-not", format!("{}ja", "!".repeat(d)));
        add("deep-array", format!("{}{}", "[".repeat(d), "]".repeat(d)));
        add("deep-blocks", format!("{}{}", "{".repeat(d), "}".repeat(d)));
        add("deep-if", format!("{}1{}", "als ja { ".repeat(d), " }".repeat(d)));
        add("deep-fn", format!("{}1{}", "functie() { ".repeat(d), " }".repeat(d)));
        add("long-sum", format!("1{}", " + 1".repeat(d)));
        add("long-call-args", format!("print({})", vec!["1"; d].join(", ")));
    }
    for n in [255usize, 256, 300, 65535, 65536, 70000] {
        add("big-array-literal", format!("lengte([{}])", vec!["1"; n].join(",")));
        add("many-args", format!("functie f() {{ 1 }} f({})", vec!["1"; n].join(",")));
    }
    for n in [65535usize, 65536, 70000] {
        let consts: Vec<String> = (0..n).map(|i| i.to_string()).collect();
        add("many-constants", consts.join(";"));
        let decls: Vec<String> = (0..n).map(|i| format!("stel v{i} = {i}")).collect();
        add("many-globals", decls.join(";"));
        add("many-locals", format!("functie f() {{ {} ; 1 }} f()", decls.join(";")));
        add("long-code", format!("als ja {{ {} }}", vec!["1 + 2 * 3"; n / 4].join(";")));
    }
    add("deep-recursion-runtime", "functie f(n) { als n == 0 { antwoord 0 } 1 + f(n - 1) } f(100000)".to_string());
    add("deep-recursion-stack-slots", "functie f(n) { stel a = 1; stel b = 2; stel c = 3; als n == 0 { antwoord 0 } f(n - 1) } f(30000)".to_string());
    v
}

pub fn inputs(seed: u64, n: u64) -> Vec<(String, String)> {
    let mut out = directed();
    let mut rng = StdRng::seed_from_u64(seed ^ 0x70741);
    let fams = ["mixed", "calls", "control", "seq", "names", "alloc"];
    let mut i = 0u64;
    let target = out.len() as u64 + n;
    while (out.len() as u64) < target {
        let fam = fams[(i % fams.len() as u64) as usize];
        let mut g = Gen::new(seed.wrapping_mul(9_000_011).wrapping_add(i), cfg_for(fam));
        g.cfg.max_stmts = 6;
        i += 1;
        let prog = g.program();
        let text = to_text(&prog, true);
        let toks = token_texts(&text);
        for _ in 0..6 {
            let mut m = mutate_tokens(&toks, &mut rng);
            for _ in 0..rng.gen_range(0..3) {
                m = mutate_tokens(&m, &mut rng);
            }
            out.push(("token-edit".into(), m.join(" ")));
        }
        // truncation at every byte offset that is a character boundary (a &str can not hold less)
        let step = (text.len() / 40).max(1);
        let mut k = 0;
        while k < text.len() {
            if text.is_char_boundary(k) {
                out.push(("truncation".into(), text[..k].to_string()));
            }
            k += step;
        }
        for _ in 0..6 {
            let len = rng.gen_range(1..14);
            out.push(("random-tokens".into(), random_tokens(&mut rng, len)));
        }
        // character-level edits: delete / duplicate / replace one character of a well-formed program
        let chars: Vec<char> = text.chars().collect();
        for _ in 0..4 {
            if chars.is_empty() {
                break;
            }
            let mut c2 = chars.clone();
            let i = rng.gen_range(0..c2.len());
            match rng.gen_range(0..3) {
                0 => {
                    c2.remove(i);
                }
                1 => {
                    let x = c2[i];
                    c2.insert(i, x);
                }
                _ => {
                    c2[i] = ['.', '"', '\\', '(', ')', '{', '}', '[', ']', '=', '!', '-', '0', ' ', 'é', '^', '&', '|', ';', ','][rng.gen_range(0..20)];
                }
            }
            out.push(("char-edit".into(), c2.into_iter().collect()));
        }
        // noise: random code points, control characters, surrogates-adjacent, mixed with program text
        for _ in 0..3 {
            let len = rng.gen_range(1..30);
            let s: String = (0..len)
                .map(|_| match rng.gen_range(0..6) {
                    0 => char::from_u32(rng.gen_range(0..128)).unwrap_or('a'),
                    1 => char::from_u32(rng.gen_range(128..0x800)).unwrap_or('é'),
                    2 => char::from_u32(rng.gen_range(0x800..0xD000)).unwrap_or('日'),
                    3 => char::from_u32(rng.gen_range(0x10000..0x10FFFF)).unwrap_or('😀'),
                    4 => ['"', '\\', '{', '}', '(', ')', '[', ']', '/', '\n'][rng.gen_range(0..10)],
                    _ => ' ',
                })
                .collect();
            out.push(("noise".into(), s));
        }
    }
    out.truncate(target as usize);
    out
}

pub fn gen_total(args: &Args) {
    let seed = args.num("seed", 1);
    let n = args.num("n", 500);
    let out = args.get("out", "/dev/stdout");
    let shard = args.num("shard", 0);
    let shards = args.num("shards", 1);
    let first_id = args.num("first-id", 1);
    let mut f = std::io::BufWriter::new(std::fs::File::create(&out).expect("create out"));
    let mut sem = std::fs::File::create(format!("{out}.sem")).expect("create sem");
    let mut semsrc = std::fs::File::create(format!("{out}.sem.src")).expect("create sem src");
    let mut w = Worker::spawn(Duration::from_secs(20));
    let opts = RunOpts { budget: Some(2_000_000), ..Default::default() };
    let mut id = first_id;
    for (k, (kind, text)) in inputs(seed, n).iter().enumerate() {
        if (k as u64) % shards != shard {
            continue;
        }
        let t0 = Instant::now();
        let r = w.eval(text, &opts);
        let ms = t0.elapsed().as_millis() as u64;
        let short: String = text.chars().take(300).collect();
        let mut obs = r["obs"].clone();
        obs["out"] = json!([]);
        writeln!(f, "{}", json!({"id":id,"kind":kind,"obs":obs,"text":short,"len":text.len(),"ms":ms})).unwrap();
        // a run that was cut short by the budget is only acceptable if the program spells out the
        // loop itself: the reference semantics, run on the tree the parser built, decides
        let class = r["obs"]["class"].as_str().unwrap_or("");
        let sample = k % 25 == 0;
        let plain = !(kind.starts_with("deep") || kind.starts_with("long") || kind.starts_with("many") || kind.starts_with("big"));
        if (class == "Budget" || sample) && text.len() < 3000 && plain {
            let p = w.parse(text);
            if p["ok"] == true {
                let mut rec = json!({"id":id,"fam":format!("total-{kind}"),"nodes":p["tree"]["nodes"],"root":p["tree"]["root"],
                                     "parse_same":true});
                rec["obs"] = r["obs"].clone();
                writeln!(sem, "{}", rec).unwrap();
                writeln!(semsrc, "{}", json!({"id":id,"text":text})).unwrap();
            }
        }
        id += 1;
    }
}

/// The real binary: file mode, and line by line on the prompt's standard input
pub fn gen_binary(args: &Args) {
    let seed = args.num("seed", 1);
    let n = args.num("n", 60);
    let out = args.get("out", "/dev/stdout");
    let bin = args.get("bin", "/verif/harness/target/debug/nederlang");
    let dir = args.get("dir", "/verif/out/tmp_bin");
    let _ = std::fs::create_dir_all(&dir);
    let mut f = std::fs::File::create(&out).expect("create out");
    let all = inputs(seed, n);
    let mut id = 1u64;
    let pick: Vec<&(String, String)> = all.iter().filter(|(k, t)| t.len() < 2000 && !k.starts_with("deep") && !k.starts_with("many")).collect();
    let step = (pick.len() / (n as usize).max(1)).max(1);
    let mut w = Worker::spawn(Duration::from_secs(30));
    let mut skipped = 0u64;
    for (kind, text) in pick.iter().step_by(step).map(|x| (&x.0, &x.1)) {
        // the binary has no instruction budget: a text whose evaluation is still running after two million
        // instructions under the hooks (a loop the program itself spells out) is not given to it
        let pre = w.eval(text, &RunOpts { budget: Some(2_000_000), ..Default::default() });
        if pre["obs"]["class"] == "Budget" {
            skipped += 1;
            continue;
        }
        for mode in ["file", "prompt"] {
            let path = format!("{dir}/in_{id}.nl");
            std::fs::write(&path, text).unwrap();
            let mut cmd = Command::new("sh");
            let script = if mode == "file" {
                format!("ulimit -v 4000000; exec timeout 10 '{bin}' '{path}'")
            } else {
                format!("ulimit -v 4000000; exec timeout 10 '{bin}' < '{path}'")
            };
            cmd.arg("-c").arg(script).stdin(Stdio::null()).stdout(Stdio::null()).stderr(Stdio::piped());
            let o = cmd.output();
            let (status, sig, err) = match o {
                Ok(o) => {
                    use std::os::unix::process::ExitStatusExt;
                    (o.status.code().unwrap_or(-1), o.status.signal().unwrap_or(0),
                     String::from_utf8_lossy(&o.stderr).chars().take(300).collect::<String>())
                }
                Err(e) => (-2, 0, e.to_string()),
            };
            let class = if status == 124 { "Timeout" } else if status == 101 { "Panic" } else if sig != 0 || status >= 128 { "Abort" } else { "Exit" };
            let short: String = text.chars().take(300).collect();
            writeln!(f, "{}", json!({"id":id,"kind":format!("binary-{mode}-{kind}"),
                "obs":{"class":class,"status":status,"signal":sig,"msg":err,"out":[]},"text":short,"len":text.len(),"ms":0})).unwrap();
            let _ = std::fs::remove_file(&path);
            id += 1;
        }
    }
    eprintln!("{}", json!({"skipped_still_running_after_2M_instructions": skipped}));
}
