//! Inputs for the bytecode-contract verifier NlBcSafe (C02): generated programs, token-level
//! mutations of them and random token sequences -- everything the front end accepts.

use crate::ast::to_text;
use crate::gen::Gen;
use crate::pool::Worker;
use crate::run::RunOpts;
use crate::semfam::cfg_for;
use crate::Args;
use rand::rngs::StdRng;
use rand::seq::SliceRandom;
use rand::{Rng, SeedableRng};
use serde_json::{json, Value};
use std::io::Write;
use std::time::Duration;

pub const VOCAB: &[&str] = &[
    "als", "anders", "antwoord", "functie", "zolang", "stel", "ja", "nee", "stop", "volgende",
    "<=", ">=", "==", "!=", "&&", "||", "=", ";", ",", "(", ")", "{", "}", "[", "]", "!", "<",
    ">", "-", "+", "*", "/", "%", "a", "b", "f", "x", "0", "1", "2", "7", "1.5", "\"s\"",
    "print", "lengte", "int", "type", ".", "^", "\"\"", "\"a\\\"b\"", "3.", "0.0", "string", "float", "bool",
    "a.b", "1.x", "é", "//", "// c\n", "-1", "f(", "a[", "x =", "+=",
    "/*", "*/", "#", "'", "\\", "\"", "\r\n", "-=", "*=", "/=", "1e3", "0x1", "_", "€",
];

/// The token texts of `text` (through the real lexer's spans)
pub fn token_texts(text: &str) -> Vec<String> {
    let (toks, _) = nederlang::verif::tokens(text);
    toks.iter()
        .map(|t| text[t.start..t.end].trim().to_string())
        .filter(|s| !s.is_empty())
        .collect()
}

/// One token-level edit: delete, duplicate, swap neighbours, replace
pub fn mutate_tokens(toks: &[String], rng: &mut StdRng) -> Vec<String> {
    let mut t = toks.to_vec();
    if t.is_empty() {
        return vec![VOCAB.choose(rng).unwrap().to_string()];
    }
    let i = rng.gen_range(0..t.len());
    match rng.gen_range(0..4) {
        0 => {
            t.remove(i);
        }
        1 => {
            let x = t[i].clone();
            t.insert(i, x);
        }
        2 => {
            if i + 1 < t.len() {
                t.swap(i, i + 1);
            }
        }
        _ => {
            t[i] = VOCAB.choose(rng).unwrap().to_string();
        }
    }
    t
}

pub fn random_tokens(rng: &mut StdRng, n: usize) -> String {
    (0..n)
        .map(|_| *VOCAB.choose(rng).unwrap())
        .collect::<Vec<_>>()
        .join(" ")
}

/// Texts for the C02 / C05 input space; kind names the source of each
/// `stop` / `volgende` / `antwoord` in every unusual place: a text of this list is either rejected by the front
/// end or compiles to code that passes the verifier (a jump may never leave the body it was written in)
pub fn placement_corners() -> Vec<String> {
    let mut v: Vec<String> = Vec::new();
    let jumps = ["stop", "volgende"];
    for j in jumps {
        // a function literal inside a loop: at top level, inside another function, named / anonymous / stored, nested twice
        v.push(format!("zolang ja {{ functie f() {{ {j} }}; f(); stop }}"));
        v.push(format!("functie g() {{ zolang ja {{ functie f() {{ {j} }}; f(); stop }} }} g()"));
        v.push(format!("functie g() {{ stel i = 0; zolang i < 3 {{ i += 1; stel h = functie() {{ {j} }}; h() }}; i }} g()"));
        v.push(format!("functie g() {{ zolang ja {{ functie f() {{ als ja {{ {j} }} }}; f(); stop }} }} g()"));
        v.push(format!("functie g() {{ zolang ja {{ functie f() {{ functie k() {{ {j} }}; k() }}; f(); stop }} }} g()"));
        v.push(format!("functie g() {{ zolang ja {{ functie f() {{ zolang nee {{ }}; {j} }}; f(); stop }} }} g()"));
        v.push(format!("functie g() {{ zolang ja {{ print(functie() {{ {j} }}); stop }} }} g()"));
        // inside the function's own loop it is fine
        v.push(format!("functie g() {{ zolang ja {{ functie f() {{ stel n = 0; zolang n < 2 {{ n += 1; {j} }}; n }}; print(f()); stop }} }} g()"));
        // in the condition of a loop, in an operand, in an argument
        v.push(format!("stel i = 0; zolang als i < 2 {{ i += 1; ja }} anders {{ {j}; nee }} {{ i }}"));
        v.push(format!("stel i = 0; zolang i < 2 {{ i += 1; stel t = 1 + als i == 1 {{ {j} }} anders {{ 2 }}; print(t) }}; i"));
        v.push(format!("stel i = 0; zolang i < 2 {{ i += 1; print(als i == 1 {{ {j} }} anders {{ 2 }}) }}; i"));
        v.push(format!("stel i = 0; zolang i < 2 {{ i += 1; [1, als i == 1 {{ {j} }} anders {{ 2 }}, 3] }}; i"));
        // a body that is nothing else; two in a row; after an unreachable statement
        v.push(format!("zolang ja {{ {j} }}").replace("zolang ja { volgende }", "stel i = 0; zolang i < 2 { i += 1; volgende }"));
        v.push(format!("stel i = 0; zolang i < 2 {{ i += 1; {j}; {j} }}; i"));
        v.push(format!("stel i = 0; zolang i < 2 {{ i += 1; {{ {{ {j} }} }}; 5 }}; i"));
        // nested loops: the outer with two, the inner with none
        v.push(format!("stel i = 0; zolang i < 3 {{ i += 1; als i == 1 {{ {j} }}; stel k = 0; zolang k < 2 {{ k += 1 }}; als i == 2 {{ {j} }} }}; i"));
    }
    for t in [
        "functie g() { zolang ja { antwoord 1 + als ja { antwoord 2 } anders { 3 } } } g()",
        "functie g() { stel a = [1, als ja { antwoord 7 } anders { 2 }, 3]; a } g()",
        "functie g() { print(1, als ja { antwoord 7 }); 9 } g()",
        "functie g() { zolang ja { zolang ja { antwoord 5 } } } g()",
        "functie g() { functie h() { antwoord 3 }; h() + 1 } g()",
        "functie g(p) { als p { { { antwoord 1 } } }; 2 } [g(ja), g(nee)]",
        "functie g(p, q) { als p { stel a = 1; als q { stel b = 2; antwoord a + b } }; 0 } [g(ja, ja), g(ja, nee), g(nee, ja)]",
        "functie g(a, b) { { stel c = a; { stel d = b; { stel e = c + d; antwoord e } } } } g(2, 3)",
        "functie g(a) { als a > 0 { stel b = a * 2; zolang b > 0 { stel c = b; b -= 1; als c == a { antwoord c } } }; 0 } g(3)",
    ] {
        v.push(t.to_string());
    }
    v
}

pub fn candidate_texts(seed: u64, n: u64) -> Vec<(String, String)> {
    let mut out = Vec::new();
    for t in placement_corners() {
        out.push(("placement".to_string(), t));
    }
    let mut rng = StdRng::seed_from_u64(seed ^ 0x5eed);
    let fams = ["mixed", "calls", "control", "seq", "names"];
    let mut i = 0u64;
    while (out.len() as u64) < n {
        let fam = fams[(i % fams.len() as u64) as usize];
        let mut g = Gen::new(seed.wrapping_mul(7_000_003).wrapping_add(i), cfg_for(fam));
        g.cfg.max_stmts = 8;
        let prog = g.program();
        let text = to_text(&prog, true);
        i += 1;
        let toks = token_texts(&text);
        out.push(("generated".to_string(), text));
        // a few single and double token edits of it
        for k in 0..4 {
            let mut m = mutate_tokens(&toks, &mut rng);
            if k % 2 == 1 {
                m = mutate_tokens(&m, &mut rng);
            }
            out.push(("token-edit".to_string(), m.join(" ")));
        }
        for _ in 0..3 {
            let len = rng.gen_range(1..12);
            out.push(("random-tokens".to_string(), random_tokens(&mut rng, len)));
        }
    }
    out.truncate((n as usize).max(placement_corners().len()));
    out
}

pub fn gen_bc(args: &Args) {
    let seed = args.num("seed", 1);
    let n = args.num("n", 100);
    let out = args.get("out", "/dev/stdout");
    let first_id = args.num("first-id", 1);
    let mut f = std::fs::File::create(&out).expect("create out");
    let mut src = std::fs::File::create(format!("{out}.src")).expect("create src");
    let mut w = Worker::spawn(Duration::from_secs(10));
    let opts = RunOpts {
        budget: Some(args.num("budget", 20_000)),
        steps: true,
        max_events: 1500,
        bytecode: true,
        ..Default::default()
    };
    let mut id = first_id;
    let mut tried = 0u64;
    let mut kinds: std::collections::BTreeMap<String, (u64, u64)> = Default::default();
    for (kind, text) in candidate_texts(seed, n) {
        tried += 1;
        let r = w.eval(&text, &opts);
        let e = kinds.entry(kind.clone()).or_insert((0, 0));
        e.0 += 1;
        // only what the front end accepted has bytecode to verify
        if r.get("bc").is_none() {
            continue;
        }
        e.1 += 1;
        let mut rec = json!({"id":id,"fam":kind});
        for (k, v) in r.as_object().unwrap() {
            rec[k] = v.clone();
        }
        writeln!(f, "{}", rec).unwrap();
        writeln!(src, "{}", json!({"id":id,"text":text})).unwrap();
        id += 1;
    }
    let stats: Vec<Value> = kinds
        .iter()
        .map(|(k, (a, b))| json!({"kind":k,"tried":a,"compiled":b}))
        .collect();
    eprintln!("{}", json!({"tried":tried,"kinds":stats}));
}
