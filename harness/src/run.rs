//! Running the real interpreter under the hooks and recording what it did.

use crate::proj;
use nederlang::compiler::Compiler;
use nederlang::object::{Error, Object};
use nederlang::verif::{self, Event};
use nederlang::vm::VM;
use serde_json::{json, Value};
use std::panic::{catch_unwind, AssertUnwindSafe};

pub const DEFAULT_BUDGET: u64 = 400_000;
pub const UNFOLD_DEPTH: usize = 5;

#[derive(Clone, Default)]
pub struct RunOpts {
    pub budget: Option<u64>,
    pub steps: bool,
    pub max_events: usize,
    pub step_filter: Vec<u8>,
    pub heap: bool,
    /// also return the bytecode the compiler produced
    pub bytecode: bool,
    /// release the result graph and audit the ledger (C04)
    pub release: bool,
}

pub fn error_kind(e: &Error) -> (&'static str, String) {
    match e {
        Error::TypeError(m) => ("Type", m.clone()),
        Error::SyntaxError(m) => ("Syntax", m.clone()),
        Error::ReferenceError(m) => ("Reference", m.clone()),
        Error::IndexError(m) => ("Index", m.clone()),
        Error::ArgumentError(m) => ("Argument", m.clone()),
    }
}

thread_local! {
    static PANIC_LOC: std::cell::RefCell<String> = std::cell::RefCell::new(String::new());
}

/// Panics are data: keep quiet, remember where it happened.
pub fn install_quiet_panic_hook() {
    std::panic::set_hook(Box::new(|info| {
        let loc = info
            .location()
            .map(|l| format!("{}:{}", l.file(), l.line()))
            .unwrap_or_default();
        PANIC_LOC.with(|p| *p.borrow_mut() = loc);
    }));
}

pub fn take_panic_loc() -> String {
    PANIC_LOC.with(|p| std::mem::take(&mut *p.borrow_mut()))
}

fn panic_text(p: Box<dyn std::any::Any + Send>) -> String {
    if let Some(s) = p.downcast_ref::<&str>() {
        s.to_string()
    } else if let Some(s) = p.downcast_ref::<String>() {
        s.clone()
    } else {
        "panic".to_string()
    }
}

pub fn events_json(evs: &[Event]) -> (Vec<Value>, Vec<Value>) {
    let mut steps = Vec::new();
    let mut heap = Vec::new();
    for e in evs {
        match e {
            Event::Step {
                ip,
                op,
                sp,
                bp,
                frames,
            } => steps.push(json!([ip, op, sp, bp, frames])),
            Event::Alloc { id } => heap.push(json!({"e":"Alloc","id":id})),
            Event::Free { id, dup } => heap.push(json!({"e":"Free","id":id,"dup":dup})),
            Event::DeadDeref { id } => heap.push(json!({"e":"DeadDeref","id":id})),
            Event::Trace { gc, id } => heap.push(json!({"e":"Trace","gc":gc % 1000003,"id":id})),
            Event::Untrace { gc, id } => {
                heap.push(json!({"e":"Untrace","gc":gc % 1000003,"id":id}))
            }
            Event::RunBegin {
                gc,
                managed,
                given_roots,
            } => heap.push(
                json!({"e":"RunBegin","gc":gc % 1000003,"managed":managed,"given":given_roots}),
            ),
            Event::RunEnd { gc, managed } => {
                heap.push(json!({"e":"RunEnd","gc":gc % 1000003,"managed":managed}))
            }
            Event::Drop { gc, managed } => {
                heap.push(json!({"e":"Drop","gc":gc % 1000003,"managed":managed}))
            }
            Event::Snapshot { roots, edges } => {
                let edges: Vec<Value> = edges.iter().map(|(a, k)| json!({"a":a,"k":k})).collect();
                heap.push(json!({"e":"Snapshot","roots":roots,"edges":edges}))
            }
            Event::MarkIndex { index, len } => {
                heap.push(json!({"e":"MarkIndex","index":(*index as u64) % 1000000007,"len":len}))
            }
        }
    }
    (steps, heap)
}

/// Project the constants of a compiled program
fn consts_json(consts: &[Object]) -> Vec<Value> {
    consts
        .iter()
        .map(|c| {
            if c.tag() == nederlang::object::Type::Function {
                let [ip, nl] = c.as_function();
                json!({"t":"Fn","ip":ip,"nl":nl})
            } else {
                proj::unfold(*c, 1)
            }
        })
        .collect()
}

/// Evaluate `text` like `nederlang::eval`, under the hooks. Never panics.
pub fn run_eval(text: &str, opts: &RunOpts) -> Value {
    verif::reset();
    verif::set_budget(opts.budget);
    if opts.steps {
        verif::record_steps(true, opts.max_events, &opts.step_filter);
    }
    verif::record_heap(opts.heap);
    let live_before = verif::shadow_live_ids();

    let mut bytecode: Option<Value> = None;
    let want_bc = opts.bytecode;
    let r = catch_unwind(AssertUnwindSafe(|| -> Result<(Value, Vec<u64>), Error> {
        if !want_bc {
            // the public entry point itself (src/lib.rs)
            let obj = nederlang::eval(text)?;
            let v = proj::unfold(obj, UNFOLD_DEPTH);
            let ids = proj::graph_ids(obj);
            if opts.release {
                proj::release(obj);
            }
            return Ok((v, ids));
        }
        // the same pipeline as nederlang::eval, spelled out so that the bytecode can be observed
        let ast = nederlang::parser::parse(text)?;
        let code = Compiler::new().compile_ast(&ast)?;
        if want_bc {
            bytecode = Some(json!({
                "code": code.instructions.clone(),
                "consts": consts_json(&code.constants),
            }));
        }
        let obj = VM::new().run(code)?;
        let v = proj::unfold(obj, UNFOLD_DEPTH);
        let ids = proj::graph_ids(obj);
        if opts.release {
            proj::release(obj);
        }
        Ok((v, ids))
    }));

    let steps_taken = verif::steps();
    let fault = verif::take_fault();
    let out = verif::take_output();
    let evs = verif::take_events();
    verif::set_budget(None);
    verif::record_steps(false, 0, &[]);
    verif::record_heap(false);

    let mut obs = match r {
        Ok(Ok((v, ids))) => json!({"class":"Value","val":v,"result_ids":ids}),
        Ok(Err(e)) => {
            let (kind, msg) = error_kind(&e);
            if msg.starts_with("verif: budget") {
                json!({"class":"Budget"})
            } else if msg.starts_with("verif: fault") {
                json!({"class":"Fault","site":msg})
            } else {
                json!({"class":"Err","kind":kind,"msg":msg})
            }
        }
        Err(p) => json!({"class":"Panic","msg":panic_text(p),"loc":take_panic_loc()}),
    };
    if let Some(f) = fault {
        if obs["class"] != "Fault" {
            // a probe fired but the run ended otherwise (e.g. the fault was in the last instruction)
            obs["late_fault"] = json!(f);
        }
    }
    obs["out"] = proj::cps(&out);
    obs["steps"] = json!(steps_taken);
    let (steps, heap) = events_json(&evs);
    let mut rec = json!({"obs": obs});
    if opts.steps {
        rec["steps"] = json!(steps);
    }
    if opts.heap {
        rec["heap"] = json!(heap);
        let live_after = verif::shadow_live_ids();
        let leaked: Vec<u64> = live_after
            .into_iter()
            .filter(|i| !live_before.contains(i))
            .collect();
        rec["live_after"] = json!(leaked);
    }
    if let Some(b) = bytecode {
        rec["bc"] = b;
    }
    rec
}

/// The tree the real parser builds for `text` (TLC-ready), or the error it reports.
pub fn parse_tree(text: &str) -> Value {
    let r = catch_unwind(AssertUnwindSafe(|| verif::ast_json(text)));
    match r {
        Ok(Ok(s)) => {
            let mut v: Value = serde_json::from_str(&s).unwrap_or(json!({"nodes":[],"root":[]}));
            crate::ast::normalise_parser_tree(&mut v);
            json!({"ok":true,"tree":v})
        }
        Ok(Err(e)) => {
            let (kind, msg) = error_kind(&e);
            json!({"ok":false,"kind":kind,"msg":msg})
        }
        Err(p) => json!({"ok":false,"kind":"Panic","msg":panic_text(p),"loc":take_panic_loc()}),
    }
}
