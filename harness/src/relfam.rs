//! Pairs (program, transformed program) for the observational-equivalence laws of C09 / C10.

use crate::ast::{flatten, to_text, Stmt};
use crate::gen::Gen;
use crate::pool::Worker;
use crate::run::{RunOpts, DEFAULT_BUDGET};
use crate::semfam::cfg_for;
use crate::xform;
use crate::Args;
use rand::rngs::StdRng;
use rand::seq::SliceRandom;
use rand::SeedableRng;
use serde_json::{json, Value};
use std::io::Write;
use std::time::Duration;

fn ends_in_expr(p: &[Stmt]) -> bool {
    match p.last() {
        Some(Stmt::Expr(_)) => true,
        Some(Stmt::Block(b)) => b.is_empty() || ends_in_expr(b),
        None => true,
        _ => false,
    }
}

pub fn gen_rel(args: &Args) {
    let seed = args.num("seed", 1);
    let n = args.num("n", 100);
    let set = args.get("set", "names");
    let out = args.get("out", "/dev/stdout");
    let first_id = args.num("first-id", 1);
    let mut rel = std::fs::File::create(&out).expect("create out");
    let mut sem = std::fs::File::create(format!("{out}.sem")).expect("create sem");
    let mut src = std::fs::File::create(format!("{out}.sem.src")).expect("create src");
    let mut w = Worker::spawn(Duration::from_secs(10));
    let opts = RunOpts {
        budget: Some(DEFAULT_BUDGET),
        ..Default::default()
    };
    let shard = args.num("shard", 0);
    let shards = args.num("shards", 1);
    if set == "literal-pool" {
        // "whether equal literals occur elsewhere in the program": a literal Y means the same whether or not a
        // literal X that is close to it (equal under ==, equal after rounding, equal spelling in another type)
        // was written before it. Complete cross product; the law is `prepend`.
        const LITS: &[&str] = &["0.0", "-0.0", "0", "-0", "1", "1.0", "-1", "-1.0", "ja", "nee", "\"1\"", "\"1.0\"", "\"\"", "\"ja\"",
            "0.1", "0.10000000000000002", "0.3", "0.30000000000000004", "0.00000000000000001", "0.00000000000000002",
            "1152921504606846975", "1152921504606846974", "-1152921504606846975", "1.5", "1.5000000000000002", "\"a\"", "\"A\"",
            "4503599627370496.0", "4503599627370496.5", "4503599627370497.0", "100000000000000000000.0", "100000000000000000001.0"];
        let mut id = first_id;
        let mut k = 0u64;
        for x in LITS {
            for y in LITS {
                k += 1;
                if k % shards != shard {
                    continue;
                }
                let texts = [format!("print({y}); print(string({y})); [{y}, {y} == {y}]"),
                             format!("{x}; print({y}); print(string({y})); [{y}, {y} == {y}]")];
                let mut obs: Vec<Value> = Vec::new();
                for (which, text) in ["base", "var"].iter().zip(texts.iter()) {
                    let p = w.parse(text);
                    let r = w.eval(text, &opts);
                    let mut rec = json!({"id":id,"fam":format!("literal-pool-{which}"),
                        "nodes":p["tree"]["nodes"],"root":p["tree"]["root"],"parse_same":p["ok"] == true});
                    for (kk, v) in r.as_object().unwrap() {
                        rec[kk] = v.clone();
                    }
                    obs.push(rec["obs"].clone());
                    if p["ok"] == true {
                        writeln!(sem, "{}", rec).unwrap();
                        writeln!(src, "{}", json!({"id":id,"text":text})).unwrap();
                    }
                    id += 1;
                }
                writeln!(rel, "{}", json!({"id":id - 2,"kind":"prepend","vdef":true,"base":obs[0],"var":obs[1],
                       "base_text":texts[0],"var_text":texts[1]})).unwrap();
            }
        }
        return;
    }
    let kinds: Vec<&str> = if set == "fused-directed" {
        vec!["lit2var"]
    } else if set == "names" {
        vec!["rename", "shadow", "undeclare"]
    } else {
        vec!["wrap", "lit2var", "mirror", "prepend"]
    };
    let mut id = first_id;
    for i in 0..n {
        let s = seed.wrapping_mul(2_000_003).wrapping_add(i);
        let mut rng = StdRng::seed_from_u64(s ^ 0xabcdef);
        let kind = kinds[(i as usize) % kinds.len()];
        let fam = match (set.as_str(), kind) {
            ("names", _) => "names",
            (_, "wrap") => "closed",
            (_, "mirror") | (_, "lit2var") => "fused",
            _ => "mixed",
        };
        let mut g = Gen::new(s, cfg_for(fam));
        let mut base = g.program();
        let mut directed_var: Option<Vec<Stmt>> = None;
        if set == "fused-directed" {
            // complete enumeration: the shape the compiler fuses (`local op integer literal`, both orientations)
            // applied to a value of EVERY type, against the same computation through a temporary, which it
            // cannot fuse (the fused instructions must give the same values and the same errors)
            use crate::ast::{call, id, infix, Expr};
            let ex = crate::semfam::exemplars();
            let j = (i * shards + shard) as usize;
            if j >= ex.len() * 11 * 3 * 2 {
                break;
            }
            let (_, arg) = ex[j % ex.len()].clone();
            let op = crate::semfam::ALL_OPS[(j / ex.len()) % 11];
            let litv = [0, 1, 7][(j / ex.len() / 11) % 3];
            let flip = (j / ex.len() / 33) % 2 == 1;
            let mk = |l: Expr, r: Expr| if flip { infix(op, r, l) } else { infix(op, l, r) };
            let prog = |body: Vec<Stmt>| {
                vec![
                    Stmt::Expr(Expr::Func { name: "g".into(), params: vec![], body: vec![Stmt::Expr(Expr::Int(2))] }),
                    Stmt::Expr(Expr::Func { name: "g2".into(), params: vec![], body: vec![Stmt::Expr(Expr::Int(1))] }),
                    Stmt::Expr(Expr::Func { name: "h".into(), params: vec!["x".into()], body }),
                    Stmt::Expr(call("h", vec![arg.clone()])),
                ]
            };
            base = prog(vec![Stmt::Expr(mk(id("x"), Expr::Int(litv)))]);
            directed_var = Some(prog(vec![
                Stmt::Let("t".into(), Expr::Int(litv)),
                Stmt::Expr(mk(id("x"), id("t"))),
            ]));
        }
        let var: Option<Vec<Stmt>> = if directed_var.is_some() { directed_var } else { match kind {
            "rename" => {
                let names: Vec<String> = xform::all_names(&base)
                    .into_iter()
                    .filter(|n| !xform::BUILTINS.contains(&n.as_str()))
                    .collect();
                names
                    .choose(&mut rng)
                    .map(|from| xform::rename(&base, from, &format!("{from}_hernoemd")))
            }
            "shadow" => xform::insert_unused_shadow(&base, &mut rng),
            "undeclare" => xform::undeclare(&base, &mut rng),
            "wrap" => Some(xform::wrap_in_function(&base)),
            "lit2var" => xform::literal_to_variable(&base, &mut rng),
            "mirror" => xform::mirror(&base),
            _ => Some(xform::prepend_literals(&base, &mut rng)),
        } };
        let var = match var {
            Some(v) => v,
            None => continue,
        };
        let mut obs: Vec<Value> = Vec::new();
        for (which, p) in [("base", &base), ("var", &var)] {
            let (rec, text) = crate::semfam::record(id, &format!("{set}-{kind}-{which}"), p, &mut w, &opts);
            obs.push(rec["obs"].clone());
            writeln!(sem, "{}", rec).unwrap();
            writeln!(src, "{}", json!({"id":id,"text":text})).unwrap();
            id += 1;
        }
        let _ = flatten;
        writeln!(
            rel,
            "{}",
            json!({"id":id - 2,"kind":kind,"vdef":ends_in_expr(&base),"base":obs[0],"var":obs[1],
                   "base_text":to_text(&base,true),"var_text":to_text(&var,true)})
        )
        .unwrap();
    }
}
