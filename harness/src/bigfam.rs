//! C06: integer operators over the whole 61-bit range, in three syntactic forms.

use crate::run::{error_kind, take_panic_loc};
use crate::Args;
use nederlang::object::Type;
use rand::rngs::StdRng;
use rand::{Rng, SeedableRng};
use serde_json::{json, Value};
use std::io::Write;
use std::panic::{catch_unwind, AssertUnwindSafe};

pub const MAX_INT: i64 = (1i64 << 60) - 1;
pub const MIN_INT: i64 = -(1i64 << 60);
pub const OPS: [&str; 11] = ["+", "-", "*", "/", "%", "<", "<=", ">", ">=", "==", "!="];

/// sign and base-10^4 limbs (little-endian) of v
pub fn big_json(v: i128) -> Value {
    let neg = v < 0;
    let mut a = v.unsigned_abs();
    let mut limbs = Vec::new();
    while a > 0 {
        limbs.push((a % 10000) as u64);
        a /= 10000;
    }
    json!({"neg":neg,"mag":limbs})
}

/// Source text denoting the integer v (there are no negative literals; the smallest
/// integer has no literal at all)
pub fn operand_text(v: i64) -> String {
    if v >= 0 {
        v.to_string()
    } else if v == MIN_INT {
        format!("((-{}) - 1)", MAX_INT)
    } else {
        format!("(-{})", -v)
    }
}

pub fn lattice(full: bool) -> Vec<i64> {
    let mut v: Vec<i64> = vec![0, 1, -1, 2, -2, 7, -7, MAX_INT, MIN_INT, MAX_INT - 1, MIN_INT + 1];
    let ks: Vec<u32> = if full {
        (1..=60).collect()
    } else {
        vec![1, 2, 3, 5, 8, 15, 16, 29, 30, 31, 32, 33, 45, 58, 59, 60]
    };
    for k in ks {
        let p = 1i128 << k;
        for x in [p, p - 1, p + 1, -p, -(p - 1), -(p + 1)] {
            if x >= MIN_INT as i128 && x <= MAX_INT as i128 {
                v.push(x as i64);
            }
        }
    }
    v.sort();
    v.dedup();
    v
}

fn observe(text: &str) -> Value {
    nederlang::verif::set_budget(Some(200_000));
    let r = catch_unwind(AssertUnwindSafe(|| nederlang::eval(text)));
    match r {
        Ok(Ok(o)) => match o.tag() {
            Type::Int => {
                let mut j = big_json(o.as_int() as i128);
                j["c"] = json!("I");
                j
            }
            Type::Bool => json!({"c":"B","v":o.as_bool()}),
            _ => json!({"c":"X","what":"other-type"}),
        },
        Ok(Err(e)) => {
            let (k, _) = error_kind(&e);
            json!({"c":"E","kind":k})
        }
        Err(_) => json!({"c":"X","what":"panic","loc":take_panic_loc()}),
    }
}

pub fn forms(a: i64, b: i64, op: &str) -> [String; 3] {
    let (ta, tb) = (operand_text(a), operand_text(b));
    [
        format!("{ta} {op} {tb}"),
        format!("functie f(x) {{ x {op} {tb} }} f({ta})"),
        format!("functie f(x) {{ {ta} {op} x }} f({tb})"),
    ]
}

/// All 33 observations for one pair
pub fn observe_pair(a: i64, b: i64) -> Value {
    let mut obs = serde_json::Map::new();
    for op in OPS {
        let f = forms(a, b, op);
        let v: Vec<Value> = f.iter().map(|t| observe(t)).collect();
        obs.insert(op.to_string(), Value::Array(v));
    }
    Value::Object(obs)
}

pub fn gen_big(args: &Args) {
    crate::run::install_quiet_panic_hook();
    nederlang::verif::reset();
    let seed = args.num("seed", 1);
    let out = args.get("out", "/dev/stdout");
    let shard = args.num("shard", 0);
    let shards = args.num("shards", 1);
    let full = args.get("lattice", "quick") == "full";
    let nrandom = args.num("random", 0);
    let first_id = args.num("first-id", 1);
    let mut f = std::io::BufWriter::new(std::fs::File::create(&out).expect("create out"));
    let lat = lattice(full);
    let mut id = first_id;
    let mut k = 0u64;
    for &a in &lat {
        for &b in &lat {
            k += 1;
            if k % shards != shard {
                continue;
            }
            let rec = json!({"id":id,"a":big_json(a as i128),"b":big_json(b as i128),
                "at":a.to_string(),"bt":b.to_string(),"obs":observe_pair(a, b)});
            writeln!(f, "{}", rec).unwrap();
            id += 1;
        }
    }
    let mut rng = StdRng::seed_from_u64(seed.wrapping_mul(31).wrapping_add(shard));
    for _ in 0..nrandom {
        let bits_a = rng.gen_range(1..=60);
        let bits_b = rng.gen_range(1..=60);
        let a = rng.gen_range(-(1i64 << bits_a)..(1i64 << bits_a)).clamp(MIN_INT, MAX_INT);
        let b = rng.gen_range(-(1i64 << bits_b)..(1i64 << bits_b)).clamp(MIN_INT, MAX_INT);
        let rec = json!({"id":id,"a":big_json(a as i128),"b":big_json(b as i128),
            "at":a.to_string(),"bt":b.to_string(),"obs":observe_pair(a, b)});
        writeln!(f, "{}", rec).unwrap();
        id += 1;
    }
}
