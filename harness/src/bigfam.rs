//! C06: integer operators over the whole 61-bit range, in three syntactic forms.

use crate::run::{error_kind, take_panic_loc};
use crate::Args;
use nederlang::object::Type;
use rand::rngs::StdRng;
use rand::{Rng, SeedableRng};
use serde_json::{json, Value};
use std::io::Write;
use std::panic::{catch_unwind, AssertUnwindSafe};

pub const MAX_INT: i64 = (1i64 << 60) - 1;
pub const MIN_INT: i64 = -(1i64 << 60);
pub const OPS: [&str; 11] = ["+", "-", "*", "/", "%", "<", "<=", ">", ">=", "==", "!="];

/// sign and base-10^4 limbs (little-endian) of v
pub fn big_json(v: i128) -> Value {
    let neg = v < 0;
    let mut a = v.unsigned_abs();
    let mut limbs = Vec::new();
    while a > 0 {
        limbs.push((a % 10000) as u64);
        a /= 10000;
    }
    json!({"neg":neg,"mag":limbs})
}

/// Source text denoting the integer v (there are no negative literals; the smallest
/// integer has no literal at all)
pub fn operand_text(v: i64) -> String {
    if v >= 0 {
        v.to_string()
    } else if v == MIN_INT {
        format!("((-{}) - 1)", MAX_INT)
    } else {
        format!("(-{})", -v)
    }
}

pub fn lattice(full: bool) -> Vec<i64> {
    let mut v: Vec<i64> = vec![0, 1, -1, 2, -2, 7, -7, MAX_INT, MIN_INT, MAX_INT - 1, MIN_INT + 1];
    let ks: Vec<u32> = if full {
        (1..=60).collect()
    } else {
        vec![1, 2, 3, 5, 8, 15, 16, 29, 30, 31, 32, 33, 45, 58, 59, 60]
    };
    for k in ks {
        let p = 1i128 << k;
        for x in [p, p - 1, p + 1, -p, -(p - 1), -(p + 1)] {
            if x >= MIN_INT as i128 && x <= MAX_INT as i128 {
                v.push(x as i64);
            }
        }
    }
    v.sort();
    v.dedup();
    v
}

fn observe(text: &str) -> Value {
    nederlang::verif::set_budget(Some(200_000));
    let r = catch_unwind(AssertUnwindSafe(|| nederlang::eval(text)));
    match r {
        Ok(Ok(o)) => match o.tag() {
            Type::Int => {
                let mut j = big_json(o.as_int() as i128);
                j["c"] = json!("I");
                j
            }
            Type::Bool => json!({"c":"B","v":o.as_bool()}),
            _ => json!({"c":"X","what":"other-type"}),
        },
        Ok(Err(e)) => {
            let (k, _) = error_kind(&e);
            json!({"c":"E","kind":k})
        }
        Err(_) => json!({"c":"X","what":"panic","loc":take_panic_loc()}),
    }
}

pub fn forms(a: i64, b: i64, op: &str) -> [String; 3] {
    let (ta, tb) = (operand_text(a), operand_text(b));
    [
        format!("{ta} {op} {tb}"),
        format!("functie f(x) {{ x {op} {tb} }} f({ta})"),
        format!("functie f(x) {{ {ta} {op} x }} f({tb})"),
    ]
}

/// All 33 observations for one pair
pub fn observe_pair(a: i64, b: i64) -> Value {
    let mut obs = serde_json::Map::new();
    for op in OPS {
        let f = forms(a, b, op);
        let v: Vec<Value> = f.iter().map(|t| observe(t)).collect();
        obs.insert(op.to_string(), Value::Array(v));
    }
    // unary minus of a: on the operand's own spelling, on a parameter and on a global
    let ta = operand_text(a);
    let neg = [
        format!("-{ta}"),
        format!("functie f(x) {{ -x }} f({ta})"),
        format!("stel v = {ta}; -v"),
    ];
    obs.insert("neg".to_string(), Value::Array(neg.iter().map(|t| observe(t)).collect()));
    Value::Object(obs)
}

pub fn gen_big(args: &Args) {
    crate::run::install_quiet_panic_hook();
    nederlang::verif::reset();
    let seed = args.num("seed", 1);
    let out = args.get("out", "/dev/stdout");
    let shard = args.num("shard", 0);
    let shards = args.num("shards", 1);
    let full = args.get("lattice", "quick") == "full";
    let nrandom = args.num("random", 0);
    let first_id = args.num("first-id", 1);
    let mut f = std::io::BufWriter::new(std::fs::File::create(&out).expect("create out"));
    let lat = lattice(full);
    let mut id = first_id;
    let mut k = 0u64;
    for &a in &lat {
        for &b in &lat {
            k += 1;
            if k % shards != shard {
                continue;
            }
            let rec = json!({"id":id,"a":big_json(a as i128),"b":big_json(b as i128),
                "at":a.to_string(),"bt":b.to_string(),"obs":observe_pair(a, b)});
            writeln!(f, "{}", rec).unwrap();
            id += 1;
        }
    }
    let mut rng = StdRng::seed_from_u64(seed.wrapping_mul(31).wrapping_add(shard));
    for _ in 0..nrandom {
        let bits_a = rng.gen_range(1..=60);
        let bits_b = rng.gen_range(1..=60);
        let a = rng.gen_range(-(1i64 << bits_a)..(1i64 << bits_a)).clamp(MIN_INT, MAX_INT);
        let b = rng.gen_range(-(1i64 << bits_b)..(1i64 << bits_b)).clamp(MIN_INT, MAX_INT);
        let rec = json!({"id":id,"a":big_json(a as i128),"b":big_json(b as i128),
            "at":a.to_string(),"bt":b.to_string(),"obs":observe_pair(a, b)});
        writeln!(f, "{}", rec).unwrap();
        id += 1;
    }
}

// ---------------------------------------------------------------------------
// Floats: every comparison of every pair of a lattice that includes signed zeros, infinities,
// NaN and subnormals; arithmetic of the special values (validated by TV_Float)
// ---------------------------------------------------------------------------
pub fn float_fields(x: f64) -> Value {
    let b = x.to_bits();
    json!({"s":(b >> 63) & 1,"e":(b >> 52) & 0x7ff,"h":(b >> 26) & 0x3ffffff,"l":b & 0x3ffffff})
}

fn float_text(x: f64) -> String {
    if x.is_nan() {
        return "(0.0 / 0.0)".into();
    }
    if x.is_infinite() {
        return if x > 0.0 { "(1.0 / 0.0)".into() } else { "((-1.0) / 0.0)".into() };
    }
    let a = x.abs();
    // Rust prints floats without exponent: every finite float has a literal
    let mut t = format!("{}", a);
    if !t.contains('.') {
        t.push_str(".0");
    }
    if x.is_sign_negative() {
        format!("(-{t})")
    } else {
        t
    }
}

fn observe_float(text: &str) -> Value {
    nederlang::verif::set_budget(Some(200_000));
    let r = catch_unwind(AssertUnwindSafe(|| nederlang::eval(text)));
    let _ = nederlang::verif::take_fault();
    match r {
        Ok(Ok(o)) => match o.tag() {
            Type::Float => {
                let mut j = float_fields(o.as_f64());
                j["c"] = json!("F");
                j
            }
            Type::Bool => json!({"c":"B","v":o.as_bool()}),
            _ => json!({"c":"X","what":"other-type"}),
        },
        Ok(Err(e)) => {
            let (k, _) = error_kind(&e);
            json!({"c":"E","kind":k})
        }
        Err(_) => json!({"c":"X","what":"panic","loc":take_panic_loc()}),
    }
}

pub fn float_lattice(seed: u64, extra: u64) -> Vec<f64> {
    let mut v = vec![0.0, -0.0, 1.0, -1.0, 0.5, 1.5, -2.25, 3.0, 0.1, -0.1, 1e-5, 123456789.125, 1e15, 9007199254740993.0,
                     f64::INFINITY, f64::NEG_INFINITY, f64::NAN, f64::MAX, f64::MIN, f64::MIN_POSITIVE, 5e-324, -5e-324,
                     2.0, -3.75, 1.0000000000000002, 0.12345678901234566, 0.3, 0.7, 2.718281828459045, 3.141592653589793,
                     123456.78901234567, 0.001953125, 98765.4321, 1.7976931348623157, 4.35, 0.57, 1234567.890123];
    let mut rng = StdRng::seed_from_u64(seed ^ 0xf10a7);
    for _ in 0..extra {
        let x = f64::from_bits(rng.gen());
        if x.is_finite() {
            v.push(x);
        }
    }
    v
}

/// mantissa (with the hidden bit) and the exponent of the unit in the last place: |x| = m * 2^e
fn mant_exp(x: f64) -> (u64, i32) {
    let b = x.to_bits();
    let e = ((b >> 52) & 0x7ff) as i32;
    let f = b & ((1u64 << 52) - 1);
    if e == 0 { (f, -1074) } else { (f | (1u64 << 52), e - 1075) }
}

/// witness for `a % b`: the magnitude of trunc(a / b) as limbs, when it fits (NlFloatArith verifies
/// a = q * b + r exactly, so this is only a witness and is not trusted)
fn mod_witness(a: f64, b: f64) -> Option<Value> {
    if !a.is_finite() || !b.is_finite() || a == 0.0 || b == 0.0 || a.abs() < b.abs() {
        return None;
    }
    let (ma, ea) = mant_exp(a);
    let (mb, eb) = mant_exp(b);
    if ea < eb {
        return Some(big_json((ma as u128 / ((mb as u128) << (eb - ea))) as i128)["mag"].clone());
    }
    // long division of ma * 2^(ea - eb) by mb, bit by bit; the quotient is kept in base-10^4 limbs
    let mut q: Vec<u64> = Vec::new();
    let mut rem: u128 = 0;
    let total = 64 + (ea - eb) as usize;
    for i in 0..total {
        let bit = if i < 64 { (ma >> (63 - i)) & 1 } else { 0 };
        rem = rem * 2 + bit as u128;
        let qb = if rem >= mb as u128 { rem -= mb as u128; 1 } else { 0 };
        let mut carry = qb;
        for l in q.iter_mut() {
            let v = *l * 2 + carry;
            *l = v % 10000;
            carry = v / 10000;
        }
        if carry > 0 {
            q.push(carry);
        }
    }
    Some(json!(q))
}

/// pairs chosen so that the exact result of an operator falls between two floats, exactly half way between two
/// floats, just beside half way, beyond the largest float, or below the smallest normal one
pub fn rounding_pairs(seed: u64, n: u64) -> Vec<(f64, f64)> {
    let mut rng = StdRng::seed_from_u64(seed ^ 0x0f10a7a1);
    let mut v: Vec<(f64, f64)> = Vec::new();
    // 2^k exactly, subnormal powers included
    let p2 = |k: i32| -> f64 { if k >= -1022 { f64::from_bits(((k + 1023) as u64) << 52) } else { f64::from_bits(1u64 << (k + 1074)) } };
    let mk = |m: u64, e: i32| -> f64 { (m as f64) * p2(e) }; // exact for m < 2^53 and results in range
    // directed: ties and near-ties of a sum, at even and odd last bits, both signs, at a power of two
    for &m in &[1u64 << 52, (1 << 52) + 1, (1 << 52) + 2, (1 << 53) - 1, (1 << 53) - 2, 0x1b_5e62_0f48_3ad7, 0x14_0000_0000_0001] {
        for &e in &[-52i32, 0, 17, -300, 300] {
            let a = mk(m, e);
            for h in [p2(e - 1), p2(e - 1) + p2(e - 40), p2(e - 1) - p2(e - 40), p2(e - 2), 3.0 * p2(e - 2), p2(e) + p2(e - 1)] {
                v.push((a, h));
                v.push((a, -h));
                v.push((-a, h));
            }
        }
    }
    // products and quotients that need rounding; classic decimal fractions
    for (a, b) in [(67108865.0, 134217729.0), (1.0000000000000002, 1.0000000000000002), (0.1, 0.2), (0.1, 3.0), (0.7, 0.1), (1.0, 3.0),
                   (2.0, 3.0), (1.0, 10.0), (4.35, 100.0), (1.1, 1.1), (1e16, 1.0), (1e16, 3.0), (9007199254740993.0, 1.0),
                   (9007199254740992.0, 1.0), (9007199254740994.0, -1.0), (0.3, 0.1), (5.5, 2.5), (-5.5, 2.5), (5.5, -2.5), (1e22, 7.0),
                   (1e300, 1e-300), (123456789.123, 0.001), (6.0, 0.1), (1.0, 0.1), (1e17, 3.0), (-7.0, 2.0), (7.5, 0.5)] {
        v.push((a, b));
        v.push((b, a));
    }
    // the edge of the range: results at, just below and just above where rounding reaches infinity
    let max = f64::MAX;
    for b in [p2(970), p2(969), p2(970) - p2(930), p2(970) + p2(930), p2(971), max, p2(1023), 1.0000000000000002, 1.0000000000000004, 2.0, 0.5, 1.0 - p2(-53)] {
        v.push((max, b));
        v.push((-max, b));
        v.push((max, -b));
        v.push((p2(1023), b));
    }
    v.push((1e200, 1e200));
    v.push((1e200, 1e-200));
    v.push((1e308, 10.0));
    v.push((1e308, 0.1));
    // the bottom of the range: subnormal results, ties towards zero and towards the smallest subnormal
    let tiny = 5e-324;
    for a in [tiny, 2.0 * tiny, 3.0 * tiny, 5.0 * tiny, f64::MIN_POSITIVE, f64::MIN_POSITIVE - tiny, f64::MIN_POSITIVE + tiny, 1.5 * f64::MIN_POSITIVE, mk((1 << 52) + 1, -1074)] {
        for b in [0.5, 0.25, 0.75, 1.5, 0.5 + p2(-30), 0.5 - p2(-30), 2.0, 3.0, 1e-5, p2(-52), p2(-53), 1.0 + p2(-52), tiny, f64::MIN_POSITIVE, 1e300] {
            v.push((a, b));
            v.push((-a, b));
            v.push((b, a));
        }
    }
    for (a, b) in [(1e-200, 1e-200), (1e-160, 1e-160), (1e-162, 1e-162), (1e-300, 1e10), (1e-320, 3.0), (3e-310, 1e5)] {
        v.push((a, b));
    }
    // random mantissas, exponents near each other (so that both operands matter), all four sign combinations
    let sign = |rng: &mut StdRng, x: f64| if rng.gen_range(0..4) == 0 { -x } else { x };
    for i in 0..n {
        let ma: u64 = (1u64 << 52) | (rng.gen::<u64>() & ((1u64 << 52) - 1));
        let mb: u64 = match i % 4 {
            0 => (1u64 << 52) | (rng.gen::<u64>() & ((1u64 << 52) - 1)),
            1 => (1u64 << 52) | (rng.gen::<u64>() & 0xff) << rng.gen_range(0..44),   // few bits set
            2 => (1u64 << 52) | ((1u64 << rng.gen_range(1..52)) - 1),               // run of ones
            _ => ((1u64 << 52) | (rng.gen::<u64>() & ((1u64 << 52) - 1))) & !((1u64 << rng.gen_range(0..52)) - 1), // trailing zeros
        };
        let ea = match i % 7 { 0 => rng.gen_range(-1074..-960), 1 => rng.gen_range(880..971), 2 => rng.gen_range(-560..-480), 3 => rng.gen_range(440..520), _ => rng.gen_range(-120..60) };
        let d = match i % 5 { 0 => 0, 1 => rng.gen_range(-3..4), 2 => rng.gen_range(-56..57), 3 => rng.gen_range(-70..71), _ => rng.gen_range(-12..13) };
        let eb = (ea + d).clamp(-1074, 970);
        let a = sign(&mut rng, mk(ma, ea));
        let b = sign(&mut rng, mk(mb, eb));
        if a.is_finite() && b.is_finite() {
            v.push((a, b));
        }
    }
    v
}

fn float_pair_record(id: u64, a: f64, b: f64, with_spellings: bool) -> Value {
    let (ta, tb) = (float_text(a), float_text(b));
    let mut cmp = serde_json::Map::new();
    let mut ar = serde_json::Map::new();
    for op in OPS {
        let forms = [
            format!("{ta} {op} {tb}"),
            format!("functie f(x) {{ x {op} {tb} }} f({ta})"),
            format!("functie f(x) {{ {ta} {op} x }} f({tb})"),
        ];
        let v: Vec<Value> = forms.iter().map(|t| observe_float(t)).collect();
        if ["+", "-", "*", "/", "%"].contains(&op) {
            ar.insert(op.to_string(), Value::Array(v));
        } else {
            cmp.insert(op.to_string(), Value::Array(v));
        }
    }
    // the operand as a program of its own: the literal (or the expression that spells a special value) must
    // denote exactly this float; and so must a spelling with more digits than are needed to identify it
    let long = |x: f64, t: &str| -> String {
        if x.is_finite() && x.abs() >= 1e-5 && x.abs() < 1e15 {
            let l = format!("{:.25}", x.abs());
            if x.is_sign_negative() { format!("(-{l})") } else { l }
        } else {
            t.to_string()
        }
    };
    let lit = vec![observe_float(&ta), observe_float(&tb), observe_float(&long(a, &ta)), observe_float(&long(b, &tb))];
    // spellings of a with 15 .. 20 significant digits: each denotes the float nearest to the decimal written
    // (ground truth: Rust's correctly rounded conversion of the same text)
    let mut spellings: Vec<Value> = Vec::new();
    if with_spellings && a.is_finite() && a.abs() >= 1e-3 && a.abs() < 1e9 {
        let int_digits = format!("{:.0}", a.abs().trunc()).trim_start_matches('0').len();
        for sig in 15usize..=20 {
            if sig > int_digits {
                let t = format!("{:.*}", sig - int_digits, a.abs());
                let want: f64 = t.parse().unwrap();
                spellings.push(json!({"text":t,"want":float_fields(want),"obs":observe_float(&t)}));
            }
        }
    }
    let mut rec = json!({"id":id,"a":float_fields(a),"b":float_fields(b),"at":ta,"bt":tb,"cmp":cmp,"ar":ar,"lit":lit,"spellings":spellings});
    if let Some(q) = mod_witness(a, b) {
        rec["modq"] = q;
    }
    rec
}

pub fn gen_float(args: &Args) {
    crate::run::install_quiet_panic_hook();
    nederlang::verif::reset();
    let seed = args.num("seed", 1);
    let out = args.get("out", "/dev/stdout");
    let shard = args.num("shard", 0);
    let shards = args.num("shards", 1);
    let extra = args.num("extra", 10);
    let rounding = args.num("rounding", 0);
    let first_id = args.num("first-id", 1);
    let mut f = std::io::BufWriter::new(std::fs::File::create(&out).expect("create out"));
    let lat = float_lattice(seed, extra);
    let mut id = first_id;
    let mut k = 0u64;
    let mut pairs: Vec<(f64, f64, bool)> = Vec::new();
    if args.get("family", "lattice") == "rounding" {
        for (a, b) in rounding_pairs(seed, rounding) {
            pairs.push((a, b, false));
        }
    } else {
        for &a in &lat {
            for &b in &lat {
                pairs.push((a, b, b.to_bits() == lat[0].to_bits()));
            }
        }
    }
    for (a, b, sp) in pairs {
        k += 1;
        if k % shards != shard {
            continue;
        }
        writeln!(f, "{}", float_pair_record(id, a, b, sp)).unwrap();
        id += 1;
    }
}
