//! C06: integer operators over the whole 61-bit range, in three syntactic forms.

use crate::run::{error_kind, take_panic_loc};
use crate::Args;
use nederlang::object::Type;
use rand::rngs::StdRng;
use rand::{Rng, SeedableRng};
use serde_json::{json, Value};
use std::io::Write;
use std::panic::{catch_unwind, AssertUnwindSafe};

pub const MAX_INT: i64 = (1i64 << 60) - 1;
pub const MIN_INT: i64 = -(1i64 << 60);
pub const OPS: [&str; 11] = ["+", "-", "*", "/", "%", "<", "<=", ">", ">=", "==", "!="];

/// sign and base-10^4 limbs (little-endian) of v
pub fn big_json(v: i128) -> Value {
    let neg = v < 0;
    let mut a = v.unsigned_abs();
    let mut limbs = Vec::new();
    while a > 0 {
        limbs.push((a % 10000) as u64);
        a /= 10000;
    }
    json!({"neg":neg,"mag":limbs})
}

/// Source text denoting the integer v (there are no negative literals; the smallest
/// integer has no literal at all)
pub fn operand_text(v: i64) -> String {
    if v >= 0 {
        v.to_string()
    } else if v == MIN_INT {
        format!("((-{}) - 1)", MAX_INT)
    } else {
        format!("(-{})", -v)
    }
}

pub fn lattice(full: bool) -> Vec<i64> {
    let mut v: Vec<i64> = vec![0, 1, -1, 2, -2, 7, -7, MAX_INT, MIN_INT, MAX_INT - 1, MIN_INT + 1];
    let ks: Vec<u32> = if full {
        (1..=60).collect()
    } else {
        vec![1, 2, 3, 5, 8, 15, 16, 29, 30, 31, 32, 33, 45, 58, 59, 60]
    };
    for k in ks {
        let p = 1i128 << k;
        for x in [p, p - 1, p + 1, -p, -(p - 1), -(p + 1)] {
            if x >= MIN_INT as i128 && x <= MAX_INT as i128 {
                v.push(x as i64);
            }
        }
    }
    v.sort();
    v.dedup();
    v
}

fn observe(text: &str) -> Value {
    nederlang::verif::set_budget(Some(200_000));
    let r = catch_unwind(AssertUnwindSafe(|| nederlang::eval(text)));
    match r {
        Ok(Ok(o)) => match o.tag() {
            Type::Int => {
                let mut j = big_json(o.as_int() as i128);
                j["c"] = json!("I");
                j
            }
            Type::Bool => json!({"c":"B","v":o.as_bool()}),
            _ => json!({"c":"X","what":"other-type"}),
        },
        Ok(Err(e)) => {
            let (k, _) = error_kind(&e);
            json!({"c":"E","kind":k})
        }
        Err(_) => json!({"c":"X","what":"panic","loc":take_panic_loc()}),
    }
}

pub fn forms(a: i64, b: i64, op: &str) -> [String; 3] {
    let (ta, tb) = (operand_text(a), operand_text(b));
    [
        format!("{ta} {op} {tb}"),
        format!("functie f(x) {{ x {op} {tb} }} f({ta})"),
        format!("functie f(x) {{ {ta} {op} x }} f({tb})"),
    ]
}

/// All 33 observations for one pair
pub fn observe_pair(a: i64, b: i64) -> Value {
    let mut obs = serde_json::Map::new();
    for op in OPS {
        let f = forms(a, b, op);
        let v: Vec<Value> = f.iter().map(|t| observe(t)).collect();
        obs.insert(op.to_string(), Value::Array(v));
    }
    // unary minus of a: on the operand's own spelling, on a parameter and on a global
    let ta = operand_text(a);
    let neg = [
        format!("-{ta}"),
        format!("functie f(x) {{ -x }} f({ta})"),
        format!("stel v = {ta}; -v"),
    ];
    obs.insert("neg".to_string(), Value::Array(neg.iter().map(|t| observe(t)).collect()));
    Value::Object(obs)
}

pub fn gen_big(args: &Args) {
    crate::run::install_quiet_panic_hook();
    nederlang::verif::reset();
    let seed = args.num("seed", 1);
    let out = args.get("out", "/dev/stdout");
    let shard = args.num("shard", 0);
    let shards = args.num("shards", 1);
    let full = args.get("lattice", "quick") == "full";
    let nrandom = args.num("random", 0);
    let first_id = args.num("first-id", 1);
    let mut f = std::io::BufWriter::new(std::fs::File::create(&out).expect("create out"));
    let lat = lattice(full);
    let mut id = first_id;
    let mut k = 0u64;
    for &a in &lat {
        for &b in &lat {
            k += 1;
            if k % shards != shard {
                continue;
            }
            let rec = json!({"id":id,"a":big_json(a as i128),"b":big_json(b as i128),
                "at":a.to_string(),"bt":b.to_string(),"obs":observe_pair(a, b)});
            writeln!(f, "{}", rec).unwrap();
            id += 1;
        }
    }
    let mut rng = StdRng::seed_from_u64(seed.wrapping_mul(31).wrapping_add(shard));
    for _ in 0..nrandom {
        let bits_a = rng.gen_range(1..=60);
        let bits_b = rng.gen_range(1..=60);
        let a = rng.gen_range(-(1i64 << bits_a)..(1i64 << bits_a)).clamp(MIN_INT, MAX_INT);
        let b = rng.gen_range(-(1i64 << bits_b)..(1i64 << bits_b)).clamp(MIN_INT, MAX_INT);
        let rec = json!({"id":id,"a":big_json(a as i128),"b":big_json(b as i128),
            "at":a.to_string(),"bt":b.to_string(),"obs":observe_pair(a, b)});
        writeln!(f, "{}", rec).unwrap();
        id += 1;
    }
}

// ---------------------------------------------------------------------------
// Floats: every comparison of every pair of a lattice that includes signed zeros, infinities,
// NaN and subnormals; arithmetic of the special values (validated by TV_Float)
// ---------------------------------------------------------------------------
pub fn float_fields(x: f64) -> Value {
    let b = x.to_bits();
    json!({"s":(b >> 63) & 1,"e":(b >> 52) & 0x7ff,"h":(b >> 26) & 0x3ffffff,"l":b & 0x3ffffff})
}

fn float_text(x: f64) -> String {
    if x.is_nan() {
        return "(0.0 / 0.0)".into();
    }
    if x.is_infinite() {
        return if x > 0.0 { "(1.0 / 0.0)".into() } else { "((-1.0) / 0.0)".into() };
    }
    let a = x.abs();
    // Rust prints floats without exponent: every finite float has a literal
    let mut t = format!("{}", a);
    if !t.contains('.') {
        t.push_str(".0");
    }
    if x.is_sign_negative() {
        format!("(-{t})")
    } else {
        t
    }
}

fn observe_float(text: &str) -> Value {
    nederlang::verif::set_budget(Some(200_000));
    let r = catch_unwind(AssertUnwindSafe(|| nederlang::eval(text)));
    let _ = nederlang::verif::take_fault();
    match r {
        Ok(Ok(o)) => match o.tag() {
            Type::Float => {
                let mut j = float_fields(o.as_f64());
                j["c"] = json!("F");
                j
            }
            Type::Bool => json!({"c":"B","v":o.as_bool()}),
            _ => json!({"c":"X","what":"other-type"}),
        },
        Ok(Err(e)) => {
            let (k, _) = error_kind(&e);
            json!({"c":"E","kind":k})
        }
        Err(_) => json!({"c":"X","what":"panic","loc":take_panic_loc()}),
    }
}

pub fn float_lattice(seed: u64, extra: u64) -> Vec<f64> {
    let mut v = vec![0.0, -0.0, 1.0, -1.0, 0.5, 1.5, -2.25, 3.0, 0.1, -0.1, 1e-5, 123456789.125, 1e15, 9007199254740993.0,
                     f64::INFINITY, f64::NEG_INFINITY, f64::NAN, f64::MAX, f64::MIN, f64::MIN_POSITIVE, 5e-324, -5e-324,
                     2.0, -3.75, 1.0000000000000002, 0.12345678901234566, 0.3, 0.7, 2.718281828459045, 3.141592653589793,
                     123456.78901234567, 0.001953125, 98765.4321, 1.7976931348623157, 4.35, 0.57, 1234567.890123];
    let mut rng = StdRng::seed_from_u64(seed ^ 0xf10a7);
    for _ in 0..extra {
        let x = f64::from_bits(rng.gen());
        if x.is_finite() {
            v.push(x);
        }
    }
    v
}

pub fn gen_float(args: &Args) {
    crate::run::install_quiet_panic_hook();
    nederlang::verif::reset();
    let seed = args.num("seed", 1);
    let out = args.get("out", "/dev/stdout");
    let shard = args.num("shard", 0);
    let shards = args.num("shards", 1);
    let extra = args.num("extra", 10);
    let first_id = args.num("first-id", 1);
    let mut f = std::io::BufWriter::new(std::fs::File::create(&out).expect("create out"));
    let lat = float_lattice(seed, extra);
    let mut id = first_id;
    let mut k = 0u64;
    for &a in &lat {
        for &b in &lat {
            k += 1;
            if k % shards != shard {
                continue;
            }
            let (ta, tb) = (float_text(a), float_text(b));
            let mut cmp = serde_json::Map::new();
            let mut ar = serde_json::Map::new();
            for op in OPS {
                let forms = [
                    format!("{ta} {op} {tb}"),
                    format!("functie f(x) {{ x {op} {tb} }} f({ta})"),
                    format!("functie f(x) {{ {ta} {op} x }} f({tb})"),
                ];
                let v: Vec<Value> = forms.iter().map(|t| observe_float(t)).collect();
                if ["+", "-", "*", "/", "%"].contains(&op) {
                    ar.insert(op.to_string(), Value::Array(v));
                } else {
                    cmp.insert(op.to_string(), Value::Array(v));
                }
            }
            // the operand as a program of its own: the literal (or the expression that spells a special value) must
            // denote exactly this float; and so must a spelling with more digits than are needed to identify it
            let long = |x: f64, t: &str| -> String {
                if x.is_finite() && x.abs() >= 1e-5 && x.abs() < 1e15 {
                    let l = format!("{:.25}", x.abs());
                    if x.is_sign_negative() { format!("(-{l})") } else { l }
                } else {
                    t.to_string()
                }
            };
            let lit = vec![observe_float(&ta), observe_float(&tb), observe_float(&long(a, &ta)), observe_float(&long(b, &tb))];
            // spellings of a with 15 .. 20 significant digits: each denotes the float nearest to the decimal written
            // (ground truth: Rust's correctly rounded conversion of the same text)
            let mut spellings: Vec<Value> = Vec::new();
            if b.to_bits() == lat[0].to_bits() && a.is_finite() && a.abs() >= 1e-3 && a.abs() < 1e9 {
                let int_digits = format!("{:.0}", a.abs().trunc()).trim_start_matches('0').len();
                for sig in 15usize..=20 {
                    if sig > int_digits {
                        let t = format!("{:.*}", sig - int_digits, a.abs());
                        let want: f64 = t.parse().unwrap();
                        spellings.push(json!({"text":t,"want":float_fields(want),"obs":observe_float(&t)}));
                    }
                }
            }
            writeln!(f, "{}", json!({"id":id,"a":float_fields(a),"b":float_fields(b),"at":ta,"bt":tb,"cmp":cmp,"ar":ar,"lit":lit,"spellings":spellings})).unwrap();
            id += 1;
        }
    }
}
