//! C11 / C12: complete enumeration over template sets (control-flow nests, call shapes).

use crate::ast::*;
use crate::pool::Worker;
use crate::run::{RunOpts, DEFAULT_BUDGET};
use crate::semfam::record;
use crate::Args;
use serde_json::{json, Value};
use std::io::Write;
use std::time::Duration;

fn acc_add(k: i64) -> Stmt {
    Stmt::Expr(Expr::OpAssign("acc".into(), "+", b(Expr::Int(k))))
}
fn cond_even(v: &str) -> Expr {
    infix("==", infix("%", id(v), Expr::Int(2)), Expr::Int(0))
}
fn if_stmt(c: Expr, th: Vec<Stmt>, el: Option<Vec<Stmt>>) -> Stmt {
    Stmt::Expr(Expr::If { c: b(c), th, el })
}

/// The fillers of a statement slot. `in_loop` / `in_fn` say which early exits are legal here.
pub fn fillers(in_loop: bool, in_fn: bool) -> Vec<(&'static str, Vec<Stmt>)> {
    let mut f: Vec<(&'static str, Vec<Stmt>)> = vec![
        ("expr", vec![acc_add(1)]),
        ("stel", vec![Stmt::Let("t".into(), infix("+", id("acc"), Expr::Int(1))), acc_add(2)]),
        ("leeg-blok", vec![Stmt::Block(vec![])]),
        ("blok", vec![Stmt::Block(vec![acc_add(3), Stmt::Block(vec![])])]),
        ("waarde", vec![Stmt::Expr(id("acc"))]),
        // a nested block that ends in an expression: its value is the value of the enclosing block
        ("blok-waarde", vec![Stmt::Block(vec![Stmt::Let("t".into(), infix("+", id("acc"), Expr::Int(3))), Stmt::Expr(infix("*", id("t"), Expr::Int(2)))])]),
        ("blok-in-blok-waarde", vec![acc_add(1), Stmt::Block(vec![Stmt::Block(vec![Stmt::Expr(infix("+", id("acc"), Expr::Int(40)))])])]),
        ("als-expr", vec![if_stmt(cond_even("acc"), vec![acc_add(10)], None)]),
        ("als-leeg", vec![if_stmt(cond_even("acc"), vec![], Some(vec![acc_add(5)]))]),
    ];
    if in_loop {
        f.push(("stop", vec![Stmt::Break]));
        f.push(("volgende", vec![Stmt::Continue]));
        f.push(("als-stop", vec![if_stmt(infix(">", id("acc"), Expr::Int(2)), vec![Stmt::Break], None)]));
        f.push(("als-volgende", vec![if_stmt(cond_even("i"), vec![Stmt::Continue], None), acc_add(1)]));
        f.push((
            "diep-stop",
            vec![if_stmt(
                Expr::Bool(true),
                vec![Stmt::Block(vec![if_stmt(cond_even("acc"), vec![acc_add(1)], Some(vec![Stmt::Break]))])],
                None,
            )],
        ));
    }
    if in_fn {
        f.push(("antwoord", vec![Stmt::Return(infix("+", id("acc"), Expr::Int(1000)))]));
        f.push(("als-antwoord", vec![if_stmt(infix(">", id("acc"), Expr::Int(3)), vec![Stmt::Return(id("acc"))], None)]));
    }
    f
}

fn counter_loop(ctr: &str, k: i64, mut body: Vec<Stmt>) -> Vec<Stmt> {
    let mut bd = vec![Stmt::Expr(Expr::OpAssign(ctr.into(), "+", b(Expr::Int(1))))];
    bd.append(&mut body);
    vec![
        Stmt::Let(ctr.into(), Expr::Int(0)),
        Stmt::Expr(Expr::While { c: b(infix("<", id(ctr), Expr::Int(k))), body: bd }),
    ]
}

fn cat(parts: Vec<Vec<Stmt>>) -> Vec<Stmt> {
    parts.into_iter().flatten().collect()
}

/// One shape instantiated with two slot fillers
fn shape(s: usize, k: i64, a: &[Stmt], bb: &[Stmt]) -> Vec<Stmt> {
    match s {
        0 => counter_loop("i", k, cat(vec![a.to_vec(), bb.to_vec()])),
        1 => counter_loop(
            "i",
            k,
            vec![if_stmt(cond_even("i"), a.to_vec(), Some(bb.to_vec())), acc_add(100)],
        ),
        2 => counter_loop(
            "i",
            k,
            cat(vec![
                // inner loop: stop / volgende in slot A act on it, not on the outer loop
                {
                    let mut inner = vec![Stmt::Expr(Expr::OpAssign("j".into(), "+", b(Expr::Int(1))))];
                    inner.extend(a.to_vec());
                    vec![
                        Stmt::Let("j".into(), Expr::Int(0)),
                        Stmt::Expr(Expr::While { c: b(infix("<", id("j"), Expr::Int(2))), body: inner }),
                    ]
                },
                bb.to_vec(),
                vec![acc_add(7)],
            ]),
        ),
        3 => counter_loop(
            "i",
            k,
            vec![Stmt::Block(cat(vec![a.to_vec(), vec![Stmt::Block(bb.to_vec())]])), acc_add(50)],
        ),
        4 => {
            // the loop as a value
            let mut body = vec![Stmt::Expr(Expr::OpAssign("i".into(), "+", b(Expr::Int(1))))];
            body.extend(a.to_vec());
            body.extend(bb.to_vec());
            body.push(Stmt::Expr(infix("*", id("i"), Expr::Int(2))));
            vec![
                Stmt::Let("i".into(), Expr::Int(0)),
                Stmt::Let("w".into(), Expr::While { c: b(infix("<", id("i"), Expr::Int(k))), body }),
                Stmt::Expr(call("print", vec![Expr::Str("w={}".into()), id("w")])),
            ]
        }
        _ => {
            // an if / else-if / else chain as a value inside the loop
            let chain = Expr::If {
                c: b(infix("==", id("i"), Expr::Int(1))),
                th: a.to_vec(),
                el: Some(vec![Stmt::Expr(Expr::If {
                    c: b(infix("==", id("i"), Expr::Int(2))),
                    th: bb.to_vec(),
                    el: Some(vec![Stmt::Expr(Expr::Int(-1))]),
                })]),
            };
            counter_loop(
                "i",
                k,
                vec![
                    Stmt::Let("v".into(), chain),
                    Stmt::Expr(call("print", vec![Expr::Str("v={}".into()), id("v")])),
                ],
            )
        }
    }
}

pub fn control_templates() -> Vec<Vec<Stmt>> {
    let mut out = Vec::new();
    for in_fn in [false, true] {
        let fl = fillers(true, in_fn);
        for s in 0..6 {
            for k in [0i64, 1, 2, 5] {
                for (_, a) in &fl {
                    for (_, bb) in &fl {
                        let mut core = vec![Stmt::Let("acc".into(), Expr::Int(0))];
                        core.extend(shape(s, k, a, bb));
                        core.push(Stmt::Expr(call(
                            "print",
                            vec![Expr::Str("acc={} i={}".into()), id("acc"), id("i")],
                        )));
                        core.push(Stmt::Expr(id("acc")));
                        if in_fn {
                            out.push(vec![
                                Stmt::Expr(Expr::Func { name: "f".into(), params: vec![], body: core }),
                                Stmt::Let("r".into(), call("f", vec![])),
                                Stmt::Expr(call("print", vec![Expr::Str("r={}".into()), id("r")])),
                                Stmt::Expr(id("r")),
                            ]);
                        } else {
                            out.push(core);
                        }
                    }
                }
            }
        }
    }
    out
}

/// Call shapes: arity 0-4, locals 0-4, calls in every expression context, recursion depth
pub fn call_templates() -> Vec<Vec<Stmt>> {
    let mut out = Vec::new();
    let pn = ["a", "b", "c", "d"];
    for np in 0..=4usize {
        for nl in 0..=4usize {
            // functie f(a..) { stel l1 = a + 1; ...; a*1000 + b*100 ... + l_k }
            let params: Vec<String> = pn[..np].iter().map(|s| s.to_string()).collect();
            let mut body: Vec<Stmt> = Vec::new();
            for l in 0..nl {
                let init = if np > 0 { infix("+", id(pn[l % np]), Expr::Int(l as i64 + 1)) } else { Expr::Int(l as i64 + 1) };
                body.push(Stmt::Let(format!("l{l}"), init));
            }
            let mut sum = Expr::Int(0);
            for (i, p) in pn[..np].iter().enumerate() {
                sum = infix("+", infix("*", sum, Expr::Int(10)), infix("*", id(p), Expr::Int(i as i64 + 1)));
            }
            for l in 0..nl {
                sum = infix("+", sum, id(&format!("l{l}")));
            }
            body.push(Stmt::Expr(sum));
            let f = Stmt::Expr(Expr::Func { name: "f".into(), params: params.clone(), body });
            let args = |base: i64| -> Vec<Expr> { (0..np).map(|i| Expr::Int(base + i as i64)).collect() };
            let fcall = |base: i64| call("f", args(base));
            // contexts
            let ctxs: Vec<Vec<Stmt>> = vec![
                vec![Stmt::Expr(fcall(1))],
                vec![Stmt::Expr(infix("+", infix("*", Expr::Int(3), fcall(1)), fcall(2)))],
                vec![Stmt::Expr(Expr::Array(vec![fcall(1), Expr::Int(7), fcall(3)]))],
                vec![Stmt::Expr(call("print", vec![Expr::Str("{} {} {}".into()), fcall(1), Expr::Int(5), fcall(2)]))],
                vec![
                    Stmt::Let("x".into(), Expr::Int(40)),
                    Stmt::Let("y".into(), infix("+", id("x"), fcall(1))),
                    Stmt::Expr(infix("+", infix("+", id("x"), id("y")), fcall(2))),
                ],
                vec![Stmt::Expr(Expr::If { c: b(infix(">", fcall(1), Expr::Int(-1))), th: vec![Stmt::Expr(fcall(2))], el: Some(vec![Stmt::Expr(Expr::Int(0))]) })],
                vec![
                    Stmt::Let("g".into(), id("f")),
                    Stmt::Expr(Expr::Func { name: "via".into(), params: vec!["h".into()], body: vec![Stmt::Expr(infix("+", Expr::Int(1), Expr::Call { f: b(id("h")), args: args(2) }))] }),
                    Stmt::Expr(infix("+", call("via", vec![id("g")]), Expr::Call { f: b(id("g")), args: args(1) })),
                ],
                vec![
                    // a caller with its own locals and a half-evaluated expression around the call
                    Stmt::Expr(Expr::Func { name: "buiten".into(), params: vec!["p".into(), "q".into()], body: vec![
                        Stmt::Let("m".into(), infix("*", id("p"), Expr::Int(2))),
                        Stmt::Let("r".into(), infix("+", infix("+", id("m"), fcall(1)), infix("*", id("q"), fcall(2)))),
                        Stmt::Expr(Expr::Array(vec![id("p"), id("q"), id("m"), id("r")])),
                    ] }),
                    Stmt::Expr(call("buiten", vec![Expr::Int(6), Expr::Int(9)])),
                ],
            ];
            for c in ctxs {
                let mut p = vec![f.clone()];
                p.extend(c);
                out.push(p);
            }
        }
    }
    // recursion: direct (depths), mutual through a variable, independent activations
    for depth in [0i64, 1, 2, 10, 50, 200] {
        out.push(vec![
            Stmt::Expr(Expr::Func { name: "som".into(), params: vec!["n".into()], body: vec![
                Stmt::Expr(Expr::If { c: b(infix("<=", id("n"), Expr::Int(0))), th: vec![Stmt::Return(Expr::Int(0))], el: None }),
                Stmt::Let("hier".into(), infix("*", id("n"), Expr::Int(2))),
                Stmt::Let("rest".into(), call("som", vec![infix("-", id("n"), Expr::Int(1))])),
                Stmt::Expr(infix("+", infix("-", id("hier"), id("n")), id("rest"))),
            ] }),
            Stmt::Expr(call("som", vec![Expr::Int(depth)])),
        ]);
        out.push(vec![
            Stmt::Let("oneven".into(), Expr::Int(0)),
            Stmt::Expr(Expr::Func { name: "even".into(), params: vec!["n".into()], body: vec![
                Stmt::Expr(Expr::If { c: b(infix("==", id("n"), Expr::Int(0))), th: vec![Stmt::Return(Expr::Bool(true))], el: None }),
                Stmt::Expr(call("oneven", vec![infix("-", id("n"), Expr::Int(1))])),
            ] }),
            Stmt::Expr(Expr::Assign(b(id("oneven")), b(Expr::Func { name: String::new(), params: vec!["n".into()], body: vec![
                Stmt::Expr(Expr::If { c: b(infix("==", id("n"), Expr::Int(0))), th: vec![Stmt::Return(Expr::Bool(false))], el: None }),
                Stmt::Expr(call("even", vec![infix("-", id("n"), Expr::Int(1))])),
            ] }))),
            Stmt::Expr(Expr::Array(vec![call("even", vec![Expr::Int(depth)]), call("even", vec![Expr::Int(depth + 1)])])),
        ]);
    }
    // evaluation order of arguments: each argument expression prints when it is evaluated
    {
        let spoor = Stmt::Expr(Expr::Func { name: "spoor".into(), params: vec!["n".into()], body: vec![
            Stmt::Expr(call("print", vec![Expr::Str("arg {}".into()), id("n")])),
            Stmt::Expr(Expr::Assign(b(id("teller")), b(infix("+", infix("*", id("teller"), Expr::Int(10)), id("n"))))),
            Stmt::Expr(id("n")),
        ] });
        let drie = Stmt::Expr(Expr::Func { name: "drie".into(), params: vec!["a".into(), "b".into(), "c".into()], body: vec![
            Stmt::Expr(Expr::Array(vec![id("a"), id("b"), id("c")])),
        ] });
        let s = |k: i64| call("spoor", vec![Expr::Int(k)]);
        for ctx in 0..5 {
            let use_ = match ctx {
                0 => call("print", vec![Expr::Str("{} {} {}".into()), s(1), s(2), s(3)]),
                1 => call("drie", vec![s(1), s(2), s(3)]),
                2 => Expr::Array(vec![s(1), s(2), s(3)]),
                3 => infix("-", infix("-", s(1), s(2)), s(3)),
                _ => call("lengte", vec![Expr::Array(vec![call("string", vec![s(4)]), call("type", vec![s(5)])])]),
            };
            out.push(vec![Stmt::Let("teller".into(), Expr::Int(0)), spoor.clone(), drie.clone(), Stmt::Expr(use_), Stmt::Expr(id("teller"))]);
        }
    }
    // half-evaluated expressions survive the call: the left operand (a global, a local, a literal, an element) has been
    // evaluated when the callee changes the variable it came from - for every binary operator, in an array literal, in an
    // argument list, in an index, at top level and inside a function
    {
        let bump = Stmt::Expr(Expr::Func { name: "bump".into(), params: vec![], body: vec![
            Stmt::Expr(Expr::Assign(b(id("x")), b(infix("+", id("x"), Expr::Int(10))))),
            Stmt::Expr(Expr::Int(5)),
        ] });
        let zet = Stmt::Expr(Expr::Func { name: "zet".into(), params: vec![], body: vec![
            Stmt::Expr(Expr::Assign(b(Expr::Index(b(id("rij")), b(Expr::Int(0)))), b(Expr::Int(50)))),
            Stmt::Expr(Expr::Int(1)),
        ] });
        let cb = || call("bump", vec![]);
        let mut uses: Vec<Expr> = Vec::new();
        for op in ["+", "-", "*", "/", "%", "==", "!=", "<", "<=", ">", ">="] {
            uses.push(infix(op, id("x"), cb()));
            uses.push(infix(op, cb(), id("x")));
            uses.push(infix(op, Expr::Int(5), cb()));
        }
        uses.push(infix("+", infix("+", id("x"), cb()), id("x")));
        uses.push(Expr::Array(vec![id("x"), cb(), id("x")]));
        uses.push(call("print", vec![Expr::Str("{} {} {}".into()), id("x"), cb(), id("x")]));
        uses.push(infix("+", Expr::Index(b(id("rij")), b(Expr::Int(0))), call("zet", vec![])));
        uses.push(Expr::Index(b(id("rij")), b(infix("-", call("zet", vec![]), Expr::Int(1)))));
        uses.push(infix("*", id("x"), infix("+", cb(), id("x"))));
        for u in uses {
            // at top level
            out.push(vec![Stmt::Let("x".into(), Expr::Int(1)), Stmt::Let("rij".into(), Expr::Array(vec![Expr::Int(7), Expr::Int(8)])),
                bump.clone(), zet.clone(), Stmt::Let("r".into(), u.clone()), Stmt::Expr(Expr::Array(vec![id("r"), id("x"), id("rij")]))]);
            // the same expression as the body of a function (the variable stays a global)
            out.push(vec![Stmt::Let("x".into(), Expr::Int(1)), Stmt::Let("rij".into(), Expr::Array(vec![Expr::Int(7), Expr::Int(8)])),
                bump.clone(), zet.clone(),
                Stmt::Expr(Expr::Func { name: "doe".into(), params: vec![], body: vec![Stmt::Expr(u.clone())] }),
                Stmt::Let("r".into(), call("doe", vec![])), Stmt::Expr(Expr::Array(vec![id("r"), id("x"), id("rij")]))]);
        }
    }
    out.push(vec![
        // fib: two live activations of the same function with different arguments
        Stmt::Expr(Expr::Func { name: "fib".into(), params: vec!["n".into()], body: vec![
            Stmt::Expr(Expr::If { c: b(infix("<", id("n"), Expr::Int(2))), th: vec![Stmt::Return(id("n"))], el: None }),
            Stmt::Expr(infix("+", call("fib", vec![infix("-", id("n"), Expr::Int(1))]), call("fib", vec![infix("-", id("n"), Expr::Int(2))]))),
        ] }),
        Stmt::Expr(Expr::Array(vec![call("fib", vec![Expr::Int(7)]), call("fib", vec![Expr::Int(1)]), call("fib", vec![Expr::Int(9)])])),
    ]);
    // many parameters: 16, and the largest argument counts the call instruction can carry (254, 255)
    for np in [16usize, 254, 255] {
        let params: Vec<String> = (0..np).map(|i| format!("p{i}")).collect();
        // the body uses the first, a middle and the last parameter, and two locals of its own
        let body = vec![
            Stmt::Let("l0".into(), infix("+", id("p0"), Expr::Int(1))),
            Stmt::Let("l1".into(), infix("+", id(&format!("p{}", np - 1)), Expr::Int(2))),
            Stmt::Expr(Expr::Array(vec![id("p0"), id(&format!("p{}", np / 2)), id(&format!("p{}", np - 1)), id("l0"), id("l1")])),
        ];
        let f = Stmt::Expr(Expr::Func { name: "veel".into(), params, body });
        let args: Vec<Expr> = (0..np).map(|i| Expr::Int(1000 + i as i64)).collect();
        out.push(vec![f.clone(), Stmt::Let("voor".into(), Expr::Int(7)),
            Stmt::Let("r".into(), call("veel", args.clone())),
            Stmt::Expr(Expr::Array(vec![id("voor"), call("veel", args.clone()), infix("+", Expr::Int(1), Expr::Index(b(id("r")), b(Expr::Int(2)))), id("voor")]))]);
    }
    // a function body whose last statement is a chain of `als` without a final `anders`, every branch leaving
    // with `antwoord`: when no branch is taken the function ends there and its value is null
    for shape in 0..3 {
        let ret = |v: i64| vec![Stmt::Return(Expr::Int(v))];
        let chain = match shape {
            0 => Expr::If { c: b(infix("<", id("n"), Expr::Int(0))), th: ret(-1), el: None },
            1 => Expr::If { c: b(infix("<", id("n"), Expr::Int(0))), th: ret(-1), el: Some(vec![Stmt::Expr(
                    Expr::If { c: b(infix("==", id("n"), Expr::Int(0))), th: ret(0), el: None })]) },
            _ => Expr::If { c: b(infix("<", id("n"), Expr::Int(0))), th: vec![Stmt::Let("t".into(), Expr::Int(5)), Stmt::Return(id("t"))], el: Some(vec![Stmt::Expr(
                    Expr::If { c: b(infix("==", id("n"), Expr::Int(0))), th: ret(0), el: Some(vec![Stmt::Expr(
                        Expr::If { c: b(infix("==", id("n"), Expr::Int(1))), th: ret(1), el: None })]) })]) },
        };
        let f = Stmt::Expr(Expr::Func { name: "teken".into(), params: vec!["n".into()], body: vec![Stmt::Let("k".into(), infix("*", id("n"), Expr::Int(2))), Stmt::Expr(chain)] });
        out.push(vec![f.clone(), Stmt::Let("voor".into(), Expr::Int(100)),
            Stmt::Expr(call("print", vec![Expr::Str("{} {} {} {}".into()), call("teken", vec![Expr::Int(-3)]), call("teken", vec![Expr::Int(0)]), call("teken", vec![Expr::Int(1)]), call("teken", vec![Expr::Int(9)])])),
            Stmt::Expr(Expr::Array(vec![id("voor"), call("teken", vec![Expr::Int(7)]), id("voor")]))]);
    }
    // a name declared with `functie` is an ordinary variable: a call site reads it when the call happens,
    // so re-binding the name changes what call sites compiled earlier call
    {
        let f = |name: &str, v: i64| Stmt::Expr(Expr::Func { name: name.into(), params: vec![], body: vec![Stmt::Expr(Expr::Int(v))] });
        let anon = |v: i64| Expr::Func { name: String::new(), params: vec![], body: vec![Stmt::Expr(Expr::Int(v))] };
        let g = Stmt::Expr(Expr::Func { name: "g".into(), params: vec![], body: vec![Stmt::Expr(infix("+", call("f", vec![]), Expr::Int(100)))] });
        // assigned after a caller was defined
        out.push(vec![f("f", 1), g.clone(), Stmt::Expr(Expr::Assign(b(id("f")), b(anon(2)))), Stmt::Expr(Expr::Array(vec![call("g", vec![]), call("f", vec![])]))]);
        // assigned inside a loop whose body calls it before the assignment
        out.push(vec![f("f", 1), Stmt::Let("i".into(), Expr::Int(0)),
            Stmt::Expr(Expr::While { c: b(infix("<", id("i"), Expr::Int(3))), body: vec![
                Stmt::Expr(call("print", vec![Expr::Str("{}".into()), call("f", vec![])])),
                Stmt::Expr(Expr::Assign(b(id("f")), b(anon(2)))),
                Stmt::Expr(Expr::Assign(b(id("i")), b(infix("+", id("i"), Expr::Int(1))))),
            ] }),
            Stmt::Expr(call("f", vec![]))]);
        // re-bound by the callee itself, by another function, and to a function held in a variable
        out.push(vec![f("f", 1),
            Stmt::Expr(Expr::Func { name: "wissel".into(), params: vec![], body: vec![Stmt::Expr(Expr::Assign(b(id("f")), b(anon(7)))), Stmt::Expr(Expr::Int(0))] }),
            g.clone(),
            Stmt::Expr(Expr::Array(vec![call("g", vec![]), call("wissel", vec![]), call("g", vec![]), call("f", vec![])]))]);
        out.push(vec![f("f", 1), f("h", 5), g.clone(), Stmt::Expr(Expr::Assign(b(id("f")), b(id("h")))),
            Stmt::Expr(Expr::Array(vec![call("g", vec![]), call("f", vec![]), call("h", vec![])]))]);
        // stub first, real definition assigned later (mutual recursion)
        out.push(vec![
            Stmt::Expr(Expr::Func { name: "oneven".into(), params: vec!["n".into()], body: vec![Stmt::Expr(Expr::Bool(false))] }),
            Stmt::Expr(Expr::Func { name: "even".into(), params: vec!["n".into()], body: vec![
                Stmt::Expr(Expr::If { c: b(infix("==", id("n"), Expr::Int(0))), th: vec![Stmt::Return(Expr::Bool(true))], el: None }),
                Stmt::Expr(call("oneven", vec![infix("-", id("n"), Expr::Int(1))])),
            ] }),
            Stmt::Expr(Expr::Assign(b(id("oneven")), b(Expr::Func { name: String::new(), params: vec!["n".into()], body: vec![
                Stmt::Expr(Expr::If { c: b(infix("==", id("n"), Expr::Int(0))), th: vec![Stmt::Return(Expr::Bool(false))], el: None }),
                Stmt::Expr(call("even", vec![infix("-", id("n"), Expr::Int(1))])),
            ] }))),
            Stmt::Expr(Expr::Array(vec![call("even", vec![Expr::Int(4)]), call("even", vec![Expr::Int(7)]), call("oneven", vec![Expr::Int(3)])])),
        ]);
        // the same with a second `functie` of the same name (a new declaration: earlier call sites keep the old one)
        out.push(vec![f("f", 1), g.clone(), f("f", 2), Stmt::Expr(Expr::Array(vec![call("g", vec![]), call("f", vec![])]))]);
        // inside a function: a local function re-bound
        out.push(vec![Stmt::Expr(Expr::Func { name: "buiten".into(), params: vec![], body: vec![
            f("f", 1), Stmt::Let("a".into(), call("f", vec![])), Stmt::Expr(Expr::Assign(b(id("f")), b(anon(2)))),
            Stmt::Expr(Expr::Array(vec![id("a"), call("f", vec![])])) ] }),
            Stmt::Expr(call("buiten", vec![]))]);
    }
    // functions with an empty body and parameters, functions returned from functions
    for np in 0..=3usize {
        let params: Vec<String> = pn[..np].iter().map(|s| s.to_string()).collect();
        let args: Vec<Expr> = (0..np).map(|i| Expr::Int(i as i64)).collect();
        out.push(vec![
            Stmt::Expr(Expr::Func { name: "niets".into(), params: params.clone(), body: vec![] }),
            Stmt::Expr(call("print", vec![Expr::Str("[{}]".into()), call("niets", args.clone())])),
            Stmt::Expr(Expr::Array(vec![Expr::Int(1), call("niets", args.clone()), Expr::Int(2)])),
        ]);
        out.push(vec![
            Stmt::Expr(Expr::Func { name: "maak".into(), params: vec![], body: vec![
                Stmt::Expr(Expr::Func { name: String::new(), params: params.clone(), body: vec![Stmt::Expr(Expr::Int(np as i64 + 10))] }),
            ] }),
            Stmt::Let("k".into(), call("maak", vec![])),
            Stmt::Expr(infix("+", Expr::Call { f: b(id("k")), args: args.clone() }, Expr::Int(1))),
        ]);
    }
    out
}

pub fn gen_templates(args: &Args) {
    let out = args.get("out", "/dev/stdout");
    let set = args.get("set", "control");
    let shard = args.num("shard", 0);
    let shards = args.num("shards", 1);
    let first_id = args.num("first-id", 1);
    let steps = args.num("steps", 0);
    let mut f = std::fs::File::create(&out).expect("create out");
    let mut src = std::fs::File::create(format!("{out}.src")).expect("create src");
    let mut w = Worker::spawn(Duration::from_secs(10));
    let opts = RunOpts {
        budget: Some(DEFAULT_BUDGET),
        steps: steps > 0,
        max_events: steps as usize,
        bytecode: steps > 0,
        ..Default::default()
    };
    let progs = if set == "control" { control_templates() } else { call_templates() };
    let mut id = first_id;
    for (k, p) in progs.iter().enumerate() {
        if (k as u64) % shards != shard {
            continue;
        }
        let (rec, text) = record(id, &format!("tmpl-{set}"), p, &mut w, &opts);
        writeln!(f, "{}", rec).unwrap();
        writeln!(src, "{}", json!({"id":id,"text":text})).unwrap();
        id += 1;
    }
}

/// C12: recursion far beyond what the reference semantics is run for, stated as laws
/// (programs that must evaluate to ja): closed forms of deep recursive sums, and the
/// requirement that exceeding the machine's 16-bit stack index is an error, not a wrong answer.
pub fn gen_deep_laws(args: &Args) {
    let out = args.get("out", "/dev/stdout");
    let first_id = args.num("first-id", 1);
    let mut f = std::fs::File::create(&out).expect("create out");
    let mut w = Worker::spawn(Duration::from_secs(60));
    let opts = RunOpts { budget: Some(20_000_000), ..Default::default() };
    let mut id = first_id;
    let base: Value = json!({"class":"Value","val":{"t":"B","v":true},"out":[]});
    let mut emit = |text: String, kind: &str, w: &mut Worker| {
        let r = w.eval(&text, &opts);
        writeln!(f, "{}", json!({"id":id,"kind":kind,"vdef":true,"base":base,"var":r["obs"],"base_text":"ja","var_text":text})).unwrap();
        id += 1;
    };
    for depth in [300i64, 1000, 5000, 12000, 16000] {
        // 4 stack slots per activation (n, two locals, and the pending operand of the addition)
        emit(format!("functie som(n) {{ als n == 0 {{ antwoord 0 }}; stel hier = n * 2; stel half = hier / 2; half + som(n - 1) }}; som({depth}) == {}", depth * (depth + 1) / 2), "yields-ja", &mut w);
        emit(format!("functie tel(n, acc) {{ als n == 0 {{ antwoord acc }}; tel(n - 1, acc + 1) }}; tel({depth}, 0) == {depth}"), "yields-ja", &mut w);
        // the caller's own locals survive a deep excursion
        emit(format!("functie diep(n) {{ als n == 0 {{ antwoord 1 }}; diep(n - 1) }}; functie buiten(a, b) {{ stel c = a * b; stel d = diep({depth}); a == 7 && b == 9 && c == 63 && d == 1 }}; buiten(7, 9)"), "yields-ja", &mut w);
    }
    // recursion without end that does not grow the operand stack (no arguments, no locals, the call in
    // tail position or as a statement): the machine's limit must end it with an error as well
    for text in [
        "functie f() { f() } f()",
        "functie f() { f(); 1 } f()",
        "functie a() { b() }; functie b() { a() }; stel b = b; a()",
        "stel diepte = 0; functie f() { diepte += 1; f() } f()",
    ] {
        if !text.contains("stel b = b") {
            emit(text.to_string(), "must-fail", &mut w);
        }
    }
    // the neighbourhood of the limit, wherever it lies: for three shapes of activation (one, two and four slots per
    // level) the first depth that fails is located by bisection; every depth from 24 below it to 8 above it is then a law
    // of its own - the closed form below the limit, an error from the limit on (never a wrong value, never a crash, and
    // no depth that works again beyond one that failed)
    let shapes: [(&str, fn(i64) -> String); 3] = [
        ("functie diep(n) { als n == 0 { antwoord 1 }; diep(n - 1) }; ", |d| format!("diep({d}) == 1")),
        ("functie tel(n, acc) { als n == 0 { antwoord acc }; tel(n - 1, acc + 1) }; ", |d| format!("tel({d}, 0) == {d}")),
        ("functie som(n) { als n == 0 { antwoord 0 }; stel hier = n * 2; stel half = hier / 2; half + som(n - 1) }; ", |d| format!("som({d}) == {}", d * (d + 1) / 2)),
    ];
    for (def, call) in shapes {
        let works = |d: i64, w: &mut Worker| -> bool {
            let r = w.eval(&format!("{def}{}", call(d)), &opts);
            r["obs"]["class"] == "Value"
        };
        let (mut lo, mut hi) = (1000i64, 70000i64); // lo works, hi fails (checked by the laws emitted below either way)
        while hi - lo > 1 {
            let mid = (lo + hi) / 2;
            if works(mid, &mut w) { lo = mid } else { hi = mid }
        }
        for d in (hi - 24)..(hi + 8) {
            emit(format!("{def}{}", call(d)), if d < hi { "yields-ja" } else { "must-fail" }, &mut w);
        }
    }
    // beyond the limit (more than 65 535 live slots): any error, never a value
    for depth in [25000i64, 40000, 70000] {
        emit(format!("functie som(n) {{ als n == 0 {{ antwoord 0 }}; stel hier = n * 2; stel half = hier / 2; half + som(n - 1) }}; som({depth})"), "must-fail", &mut w);
    }
}
