//! C13 (arrays and strings) and C14 (builtins): enumerated program families.

use crate::ast::*;
use crate::pool::Worker;
use crate::run::{RunOpts, DEFAULT_BUDGET};
use crate::semfam::record;
use crate::Args;
use rand::rngs::StdRng;
use rand::{Rng, SeedableRng};
use serde_json::{json, Value};
use std::io::Write;
use std::time::Duration;

fn lit_int(v: i64) -> Expr {
    if v < 0 {
        Expr::Prefix("-", b(Expr::Int(-v)))
    } else {
        Expr::Int(v)
    }
}

fn pr(args: Vec<Expr>) -> Stmt {
    Stmt::Expr(call("print", args))
}

const CHARS: [char; 7] = ['a', 'é', '日', '😀', 'z', 'ß', 'Ω'];

fn make_string(len: usize, salt: usize) -> String {
    (0..len).map(|i| CHARS[(i * 3 + salt) % CHARS.len()]).collect()
}

pub fn seq_programs() -> Vec<Vec<Stmt>> {
    let mut out: Vec<Vec<Stmt>> = Vec::new();
    let mut salt = 0usize;
    for len in 0..=6usize {
        let arr = Expr::Array((0..len).map(|i| Expr::Int(10 + i as i64)).collect());
        for idx in -(len as i64 + 2)..=(len as i64 + 2) {
            let i = lit_int(idx);
            // arrays: read; write seen through an alias; write through a parameter; nested alias
            out.push(vec![Stmt::Let("a".into(), arr.clone()), Stmt::Expr(Expr::Index(b(id("a")), b(i.clone())))]);
            out.push(vec![
                Stmt::Let("a".into(), arr.clone()),
                Stmt::Let("b".into(), id("a")),
                Stmt::Expr(Expr::Assign(b(Expr::Index(b(id("b")), b(i.clone()))), b(Expr::Int(99)))),
                pr(vec![Expr::Str("{} {} {}".into()), id("a"), id("b"), call("lengte", vec![id("a")])]),
                Stmt::Expr(id("a")),
            ]);
            out.push(vec![
                Stmt::Expr(Expr::Func { name: "zet".into(), params: vec!["x".into(), "i".into(), "v".into()],
                    body: vec![Stmt::Expr(Expr::Assign(b(Expr::Index(b(id("x")), b(id("i")))), b(id("v"))))] }),
                Stmt::Let("a".into(), arr.clone()),
                Stmt::Expr(call("zet", vec![id("a"), i.clone(), Expr::Str("nieuw".into())])),
                Stmt::Expr(id("a")),
            ]);
            out.push(vec![
                Stmt::Let("a".into(), arr.clone()),
                Stmt::Let("n".into(), Expr::Array(vec![id("a"), Expr::Array(vec![id("a")])])),
                Stmt::Let("t".into(), Expr::Index(b(id("n")), b(Expr::Int(0)))),
                Stmt::Expr(Expr::Assign(b(Expr::Index(b(id("t")), b(i.clone()))), b(Expr::Bool(true)))),
                pr(vec![id("n")]),
                Stmt::Expr(id("n")),
            ]);
            // strings: read; write (one char, and a longer text); measured in characters
            salt += 1;
            let s = format!("{}{}", make_string(len, salt), salt);
            let slen = s.chars().count() as i64;
            for sidx in [idx, idx + (slen - len as i64)] {
                let si = lit_int(sidx);
                out.push(vec![
                    Stmt::Let("s".into(), Expr::Str(format!("{s}r"))),
                    Stmt::Expr(Expr::Index(b(id("s")), b(si.clone()))),
                ]);
                for rep in ["q", "Ω", "😀", "lang"] {
                    out.push(vec![
                        Stmt::Let("s".into(), Expr::Str(format!("{s}w{rep}{sidx}"))),
                        Stmt::Let("t".into(), id("s")),
                        Stmt::Expr(Expr::Assign(b(Expr::Index(b(id("s")), b(si.clone()))), b(Expr::Str(rep.into())))),
                        pr(vec![Expr::Str("{} {} {}".into()), id("s"), id("t"), call("lengte", vec![id("t")])]),
                        Stmt::Expr(id("s")),
                    ]);
                }
            }
        }
    }
    // every value type as index and as stored value
    let odd: Vec<Expr> = vec![
        Expr::Bool(true),
        Expr::Float { m: 1, e: 0 },
        Expr::Str("0".into()),
        Expr::Array(vec![Expr::Int(0)]),
        id("f"),
        Expr::If { c: b(Expr::Bool(false)), th: vec![Stmt::Expr(Expr::Int(1))], el: None },
        Expr::Int(0),
    ];
    let f = Stmt::Expr(Expr::Func { name: "f".into(), params: vec![], body: vec![Stmt::Expr(Expr::Int(1))] });
    for (k, o) in odd.iter().enumerate() {
        for base in [Expr::Array(vec![Expr::Int(1), Expr::Int(2)]), Expr::Str(format!("tekst{k}"))] {
            out.push(vec![f.clone(), Stmt::Let("a".into(), base.clone()), Stmt::Expr(Expr::Index(b(id("a")), b(o.clone())))]);
            out.push(vec![f.clone(), Stmt::Let("a".into(), base.clone()),
                Stmt::Expr(Expr::Assign(b(Expr::Index(b(id("a")), b(o.clone()))), b(Expr::Int(5)))), Stmt::Expr(id("a"))]);
            // as stored value
            let base2 = match &base { Expr::Str(s) => Expr::Str(format!("{s}v")), x => x.clone() };
            out.push(vec![f.clone(), Stmt::Let("a".into(), base2),
                Stmt::Expr(Expr::Assign(b(Expr::Index(b(id("a")), b(Expr::Int(1)))), b(o.clone()))), Stmt::Expr(id("a"))]);
            // indexing something that is not a sequence
            out.push(vec![f.clone(), Stmt::Let("a".into(), o.clone()), Stmt::Expr(Expr::Index(b(id("a")), b(Expr::Int(0))))]);
        }
    }
    out
}

pub fn builtin_values() -> Vec<Expr> {
    let mut v: Vec<Expr> = vec![
        Expr::If { c: b(Expr::Bool(false)), th: vec![Stmt::Expr(Expr::Int(1))], el: None },
        Expr::Bool(true),
        Expr::Bool(false),
    ];
    for n in [0, 1, -1, 7, 123456, -987, 536870000] {
        v.push(lit_int(n));
    }
    for (m, e) in [(0, 0), (3, 1), (-9, 2), (100, 0), (1, 3), (3, 0), (-1, 1), (7, 1), (-15, 1), (1023, 2)] {
        v.push(if m < 0 { Expr::Prefix("-", b(Expr::Float { m: -m, e })) } else { Expr::Float { m, e } });
    }
    for s in ["", "a", "15", " 42 ", "-7", "+3", "3.14", "0.5", "2.75", "abc", "1e3", "12abc", "é", "  ", "007", "1_000",
              "nan", "inf", "-0.25", "1.", ".5", "--1", "9999999999", "\t8\n", "ja", "{}",
              // digit strings at and beyond the ends of the integer range, and beyond 2^63 / 2^64 (where a
              // hand-written or wrapping conversion goes wrong)
              "1152921504606846975", "1152921504606846976", "-1152921504606846976", "-1152921504606846977",
              "9223372036854775807", "9223372036854775808", "-9223372036854775809", "18446744073709551615",
              "18446744073709551616", "18446744073709551617", "-18446744073709551628", "36893488147419103233",
              "340282366920938463463374607431768211457", "000000000000000000000000000012", "99999999999999999999"] {
        v.push(Expr::Str(s.to_string()));
    }
    v.push(Expr::Array(vec![]));
    v.push(Expr::Array(vec![Expr::Int(1)]));
    v.push(Expr::Array(vec![Expr::Array(vec![Expr::Int(1)]), Expr::Array(vec![])]));
    v.push(Expr::Array(vec![Expr::Str("a".into()), Expr::Float { m: 3, e: 1 }]));
    v.push(id("g"));
    v
}

pub fn builtin_programs() -> Vec<Vec<Stmt>> {
    let g = Stmt::Expr(Expr::Func { name: "g".into(), params: vec!["x".into()], body: vec![Stmt::Expr(id("x"))] });
    let names = ["print", "type", "bool", "int", "float", "string", "lengte"];
    let vals = builtin_values();
    let mut out = Vec::new();
    for bn in names {
        out.push(vec![g.clone(), Stmt::Expr(call(bn, vec![]))]);
        for (k, v) in vals.iter().enumerate() {
            out.push(vec![g.clone(), Stmt::Let("r".into(), call(bn, vec![v.clone()])),
                pr(vec![Expr::Str("{}|{}".into()), call("type", vec![id("r")]), id("r")]), Stmt::Expr(id("r"))]);
            if k % 5 == 0 {
                out.push(vec![g.clone(), Stmt::Expr(call(bn, vec![v.clone(), v.clone()]))]);
                out.push(vec![g.clone(), Stmt::Expr(call(bn, vec![v.clone(), Expr::Int(1), v.clone()]))]);
            }
            // conversion to the own type is the identity; conversion chains
            out.push(vec![g.clone(), Stmt::Let("r".into(), call(bn, vec![call(bn, vec![v.clone()])])),
                pr(vec![id("r")]), Stmt::Expr(id("r"))]);
        }
    }
    // chains across builtins
    for v in &vals {
        for (a, c) in [("int", "string"), ("float", "string"), ("string", "int"), ("string", "float"), ("bool", "int"),
                       ("int", "float"), ("float", "int"), ("lengte", "string"), ("bool", "lengte")] {
            out.push(vec![g.clone(), Stmt::Expr(call(a, vec![call(c, vec![v.clone()])]))]);
        }
    }
    // print: 0-4 arguments, format strings of up to 4 pieces
    let pieces = ["{}", "{", "}", "a", " "];
    let args: Vec<Expr> = vec![Expr::Int(1), Expr::Str("x".into()), Expr::Str("{}".into()), Expr::Bool(true),
                               Expr::Array(vec![Expr::Int(1), Expr::Str("{}".into())])];
    out.push(vec![Stmt::Expr(call("print", vec![]))]);
    let mut fmts: Vec<String> = vec![String::new()];
    for n in 1..=4 {
        let mut idx = vec![0usize; n];
        loop {
            fmts.push(idx.iter().map(|i| pieces[*i]).collect());
            let mut k = 0;
            while k < n {
                idx[k] += 1;
                if idx[k] < pieces.len() { break; }
                idx[k] = 0;
                k += 1;
            }
            if k == n { break; }
        }
    }
    for (fi, f) in fmts.iter().enumerate() {
        for na in 0..=4usize {
            let mut a = vec![Expr::Str(f.clone())];
            for j in 0..na {
                a.push(args[(fi + j) % args.len()].clone());
            }
            out.push(vec![Stmt::Expr(call("print", a))]);
        }
    }
    // print whose first argument is not text
    for v in &vals {
        out.push(vec![g.clone(), Stmt::Expr(call("print", vec![v.clone(), Expr::Int(1)]))]);
    }
    out
}

pub fn gen_enum(args: &Args) {
    let out = args.get("out", "/dev/stdout");
    let set = args.get("set", "seq");
    let shard = args.num("shard", 0);
    let shards = args.num("shards", 1);
    let first_id = args.num("first-id", 1);
    let mut f = std::fs::File::create(&out).expect("create out");
    let mut src = std::fs::File::create(format!("{out}.src")).expect("create src");
    let mut w = Worker::spawn(Duration::from_secs(10));
    let opts = RunOpts { budget: Some(DEFAULT_BUDGET), ..Default::default() };
    let progs = if set == "seq" { seq_programs() } else { builtin_programs() };
    let mut id = first_id;
    for (k, p) in progs.iter().enumerate() {
        if (k as u64) % shards != shard {
            continue;
        }
        let (rec, text) = record(id, &format!("enum-{set}"), p, &mut w, &opts);
        writeln!(f, "{}", rec).unwrap();
        writeln!(src, "{}", json!({"id":id,"text":text})).unwrap();
        id += 1;
    }
}

/// C14 round trips: number -> text -> number must give the same number; the law needs no
/// reference interpreter (TV_Rel kind "yields-ja").
pub fn gen_roundtrip(args: &Args) {
    let seed = args.num("seed", 1);
    let n = args.num("n", 200);
    let out = args.get("out", "/dev/stdout");
    let first_id = args.num("first-id", 1);
    let mut f = std::fs::File::create(&out).expect("create out");
    let mut w = Worker::spawn(Duration::from_secs(10));
    let opts = RunOpts { budget: Some(10_000), ..Default::default() };
    let mut rng = StdRng::seed_from_u64(seed);
    let mut texts: Vec<String> = Vec::new();
    for v in crate::bigfam::lattice(true) {
        let t = crate::bigfam::operand_text(v);
        texts.push(format!("int(string({t})) == {t}"));
        // ints are exactly representable as floats up to 2^53
        if v.abs() < (1 << 53) {
            texts.push(format!("int(float({t})) == {t}"));
        }
        texts.push(format!("int({t}) == {t} && string({t}) == string({t})"));
    }
    for _ in 0..n {
        let bits: u64 = rng.gen();
        let x = f64::from_bits(bits);
        if !x.is_finite() {
            continue;
        }
        let mut t = format!("{}", x.abs());
        if !t.contains('.') {
            t.push_str(".0");
        }
        let t = if x < 0.0 { format!("(-{t})") } else { t };
        texts.push(format!("float(string({t})) == {t}"));
        let k = rng.gen_range(-1000000i64..1000000);
        let e = rng.gen_range(0..6u32);
        let ft = crate::ast::float_text(k, e);
        let ft = if k < 0 { format!("({ft})") } else { ft };
        texts.push(format!("float(string({ft})) == {ft}"));
        texts.push(format!("float({ft}) == {ft} && bool(bool({ft})) == bool({ft})"));
    }
    let mut id = first_id;
    for t in texts {
        let r = w.eval(&t, &opts);
        let base: Value = json!({"class":"Value","val":{"t":"B","v":true},"out":[]});
        writeln!(f, "{}", json!({"id":id,"kind":"yields-ja","vdef":true,"base":base,"var":r["obs"],
            "base_text":"ja","var_text":t})).unwrap();
        id += 1;
    }
}
