//! C16: the same text evaluated in different contexts must be observed identically.

use crate::ast::to_text;
use crate::gen::Gen;
use crate::pool::Worker;
use crate::run::{run_eval, RunOpts};
use crate::semfam::cfg_for;
use crate::Args;
use rand::rngs::StdRng;
use rand::{Rng, SeedableRng};
use serde_json::{json, Value};
use std::io::Write;
use std::time::Duration;

fn slim(o: &Value) -> Value {
    // the part of an observation the specification compares
    let mut s = json!({"class":o["class"],"out":o["out"]});
    if let Some(k) = o.get("kind") {
        s["kind"] = k.clone();
    }
    if let Some(v) = o.get("val") {
        s["val"] = v.clone();
    }
    if let Some(m) = o.get("msg") {
        s["msg"] = m.clone();
    }
    s
}

fn opts() -> RunOpts {
    RunOpts { budget: Some(100_000), ..Default::default() }
}

/// Worker op "threads": evaluate the given texts from many threads at once
pub fn run_threads(req: &Value) -> Value {
    crate::run::install_quiet_panic_hook();
    let texts: Vec<String> = req["texts"].as_array().map(|a| a.iter().map(|t| t.as_str().unwrap_or("").to_string()).collect()).unwrap_or_default();
    let nthreads = req["threads"].as_u64().unwrap_or(16);
    let per = req["per_thread"].as_u64().unwrap_or(20);
    let seed = req["seed"].as_u64().unwrap_or(1);
    let texts = std::sync::Arc::new(texts);
    let events = std::sync::Arc::new(std::sync::Mutex::new(Vec::<Value>::new()));
    let mut hs = Vec::new();
    for t in 0..nthreads {
        let texts = texts.clone();
        let events = events.clone();
        hs.push(std::thread::spawn(move || {
            let mut rng = StdRng::seed_from_u64(seed * 1000 + t);
            let mut local = Vec::new();
            for seq in 1..=per {
                let p = rng.gen_range(0..texts.len());
                let r = run_eval(&texts[p], &opts());
                local.push(json!({"t":t + 1,"seq":seq,"p":p + 1,"obs":slim(&r["obs"])}));
            }
            events.lock().unwrap().extend(local);
        }));
    }
    let mut crashed = false;
    for h in hs {
        if h.join().is_err() {
            crashed = true;
        }
    }
    let ev = events.lock().unwrap().clone();
    json!({"events":ev,"crashed":crashed})
}

pub fn gen_pure(args: &Args) {
    let seed = args.num("seed", 1);
    let n = args.num("n", 60);
    let out = args.get("out", "/dev/stdout");
    let ctx = args.get("ctx", "order");
    let first_id = args.num("first-id", 1);
    let base_file = args.get("base", "");
    let mut f = std::fs::File::create(&out).expect("create out");
    let mut texts: Vec<String> = Vec::new();
    let fams = ["mixed", "calls", "control", "seq", "alloc", "names"];
    for i in 0..n {
        let mut g = Gen::new(seed.wrapping_mul(13_000_003).wrapping_add(i), cfg_for(fams[(i % 6) as usize]));
        g.cfg.max_stmts = 8;
        texts.push(to_text(&g.program(), i % 2 == 0));
    }
    // programs that would notice state left behind by an earlier evaluation: reads of not-yet-assigned
    // variables, many globals, heap values, output, errors in the middle of a call
    for t in [
        "stel x = x; x",
        "stel f = (functie() { f })(); type(f)",
        "stel a = a; stel b = b; stel c = c; [a, b, c]",
        "stel a = 1; stel b = 2; stel c = 3; stel d = 4; stel e = 5; stel f = 6; stel g = [a, b, c, d, e, f]; print(g); g",
        "functie diep(n) { als n == 0 { antwoord 1 / 0 } diep(n - 1) } diep(7)",
        "stel s = \"abc\"; s[0] = \"x\"; print(s); s",
        "stel t = 0; zolang t < 5 { t += 1; als t == 3 { [1][t] } }; t",
        "print(\"een\"); stel q = q; print(q); q",
        "functie f(a, b) { stel c = c; [a, b, c] } f(1, 2)",
    ] {
        texts.push(t.to_string());
    }
    // computations at the edges of the integer range and of the machine's limits: where a build profile
    // (overflow checks, debug assertions) could make a difference
    let edges = ["1152921504606846975", "(-1152921504606846975 - 1)", "(-1)", "2", "2147483648", "1073741824"];
    for a in edges {
        for b in edges {
            for op in ["+", "-", "*", "/", "%"] {
                texts.push(format!("{a} {op} {b}"));
            }
        }
        texts.push(format!("-{a}"));
        texts.push(format!("stel v = {a}; -v"));
        texts.push(format!("functie f(x) {{ -x }} f({a})"));
        texts.push(format!("functie f(x) {{ x * 2 }} f({a})"));
        texts.push(format!("float({a})"));
        texts.push(format!("int(float({a}) * 2.0)"));
        texts.push(format!("[1, 2][{a}]"));
        texts.push(format!("\"ab\"[{a}]"));
    }
    for t in ["int(\"1152921504606846976\")", "int(\"-1152921504606846977\")", "int(1e300)", "int(0.0 / 0.0)", "1152921504606846976",
              "functie r(n) { r(n + 1) } r(0)"] {
        texts.push(t.to_string());
    }
    let mut rng = StdRng::seed_from_u64(seed ^ 0xfeed);
    match ctx.as_str() {
        "baseline" => {
            // each program once, each in a process that has evaluated nothing else
            let mut base: Vec<Value> = Vec::new();
            for t in &texts {
                let mut w = Worker::spawn(Duration::from_secs(20));
                let r = w.eval(t, &opts());
                base.push(slim(&r["obs"]));
            }
            writeln!(f, "{}", json!({"base":base,"texts":texts})).unwrap();
        }
        _ => {
            let b: Value = serde_json::from_str(&std::fs::read_to_string(&base_file).expect("read base")).expect("parse base");
            let base = b["base"].clone();
            let events: Vec<Value> = match ctx.as_str() {
                "order" | "release" => {
                    let mut w = Worker::spawn(Duration::from_secs(20));
                    let mut ev = Vec::new();
                    let reps = if ctx == "order" { 3 * texts.len() } else { texts.len() };
                    for seq in 1..=reps {
                        let p = if ctx == "order" { rng.gen_range(0..texts.len()) } else { seq - 1 };
                        let r = w.eval(&texts[p], &opts());
                        ev.push(json!({"t":1,"seq":seq,"p":p + 1,"obs":slim(&r["obs"])}));
                    }
                    ev
                }
                _ => {
                    let mut w = Worker::spawn(Duration::from_secs(120));
                    let r = w.request(&json!({"op":"threads","texts":texts,"threads":16,"per_thread":(3 * n / 16).max(4),"seed":seed}));
                    match r.get("events").and_then(|e| e.as_array()) {
                        Some(e) => e.clone(),
                        None => vec![json!({"t":1,"seq":1,"p":1,"obs":{"class":"Abort","out":[]}})],
                    }
                }
            };
            writeln!(f, "{}", json!({"id":first_id,"ctx":ctx,"base":base,"events":events})).unwrap();
        }
    }
}
