use serde_json::{json, Value};
pub fn run_session(_req: &Value) -> Value { json!({}) }
