//! C17: a retained (Compiler, VM) pair evaluates a session line by line.

use crate::ast::{to_text, Expr, Stmt};
use crate::gen::{Gen, Ty};
use crate::pool::Worker;
use crate::proj;
use crate::run::{error_kind, take_panic_loc, UNFOLD_DEPTH};
use crate::semfam::cfg_for;
use crate::Args;
use nederlang::compiler::Compiler;
use nederlang::verif;
use nederlang::vm::VM;
use rand::rngs::StdRng;
use rand::{Rng, SeedableRng};
use serde_json::{json, Value};
use std::io::Write;
use std::panic::{catch_unwind, AssertUnwindSafe};
use std::time::Duration;

/// Worker op "session": req.lines = [{text, budget?}]; one observation per line
pub fn run_session(req: &Value) -> Value {
    verif::reset();
    let heap = req.get("heap").and_then(|h| h.as_bool()).unwrap_or(false);
    verif::record_heap(heap);
    let live_before = if heap { verif::shadow_live_ids() } else { vec![] };
    let mut compiler = Compiler::new();
    let mut vm = VM::new();
    let mut obs: Vec<Value> = Vec::new();
    let empty = vec![];
    for line in req["lines"].as_array().unwrap_or(&empty) {
        let text = line["text"].as_str().unwrap_or("");
        let budget = line.get("budget").and_then(|b| b.as_u64()).unwrap_or(200_000);
        verif::set_budget(Some(budget));
        let _ = verif::take_output();
        let _ = verif::take_fault();
        let r = catch_unwind(AssertUnwindSafe(|| -> Result<Value, (String, nederlang::object::Error)> {
            let ast = nederlang::parser::parse(text).map_err(|e| ("parse".to_string(), e))?;
            let code = compiler.compile_ast(&ast).map_err(|e| ("compile".to_string(), e))?;
            let o = vm.run(code).map_err(|e| ("run".to_string(), e))?;
            Ok(proj::unfold(o, UNFOLD_DEPTH))
        }));
        let out = verif::take_output();
        let fault = verif::take_fault();
        let mut o = match r {
            Ok(Ok(v)) => json!({"class":"Value","val":v}),
            Ok(Err((stage, e))) => {
                let (kind, msg) = error_kind(&e);
                if msg.starts_with("verif: budget") {
                    json!({"class":"Budget","stage":stage})
                } else if msg.starts_with("verif: fault") {
                    json!({"class":"Fault","site":msg,"stage":stage})
                } else {
                    json!({"class":"Err","kind":kind,"msg":msg,"stage":stage})
                }
            }
            Err(p) => {
                let m = if let Some(s) = p.downcast_ref::<&str>() { s.to_string() } else if let Some(s) = p.downcast_ref::<String>() { s.clone() } else { "panic".into() };
                json!({"class":"Panic","msg":m,"loc":take_panic_loc()})
            }
        };
        if let Some(f) = fault {
            if o["class"] != "Fault" {
                o["late_fault"] = json!(f);
            }
        }
        o["out"] = proj::cps(&out);
        let (sp, frames, globals) = vm.verif_state();
        o["sp"] = json!(sp);
        o["frames"] = json!(frames);
        o["nglobals"] = json!(globals.len());
        let stop = o["class"] == "Panic";
        obs.push(o);
        if stop {
            // a panic may have left the pair in any state: the session ends here
            break;
        }
    }
    verif::set_budget(None);
    if heap {
        // the pair goes away like the prompt's does at the end of the input: the ledger sees all of it
        drop(vm);
        drop(compiler);
        let evs = verif::take_events();
        verif::record_heap(false);
        let _ = verif::take_fault();
        let (_, h) = crate::run::events_json(&evs);
        let leaked: Vec<u64> = verif::shadow_live_ids().into_iter().filter(|i| !live_before.contains(i)).collect();
        return json!({"obs":obs,"heap":h,"live_after":leaked});
    }
    // the objects of the session are deliberately leaked (the collector never frees them anyway)
    std::mem::forget(vm);
    std::mem::forget(compiler);
    json!({"obs":obs})
}


fn run_prompt(bin: &str, input: &str) -> Option<String> {
    use std::process::{Command, Stdio};
    let mut child = Command::new("sh")
        .arg("-c")
        .arg("exec timeout 30 \"$0\" 2>&1")
        .arg(bin)
        .stdin(Stdio::piped())
        .stdout(Stdio::piped())
        .spawn()
        .ok()?;
    {
        let mut stdin = child.stdin.take()?;
        let _ = stdin.write_all(input.as_bytes());
    }
    let out = child.wait_with_output().ok()?;
    Some(String::from_utf8_lossy(&out.stdout).to_string())
}

/// What the executable writes before it reads its first line (a banner, if it has one) and what it writes each time it
/// asks for a line (the prompt), learned from the executable itself: its output on an empty input is banner + prompt, on
/// one empty line the same followed by whatever an empty line makes it write and the prompt again.  None when that does not hold (no prompt at all, or output that differs from
/// run to run): the sessions are then not bound to the executable, which is counted and is not an alarm.
fn prompt_marker(bin: &str) -> Option<(String, String)> {
    static CACHE: std::sync::OnceLock<Option<(String, String)>> = std::sync::OnceLock::new();
    CACHE
        .get_or_init(|| {
            // on an empty input: banner lines (each ended by a line feed), then the prompt (not ended by one)
            let out0 = run_prompt(bin, "")?;
            let cut = out0.rfind('\n').map(|i| i + 1).unwrap_or(0);
            let (banner, prompt) = (out0[..cut].to_string(), out0[cut..].to_string());
            // on one empty line: the same, whatever an empty line makes it write, and the prompt again
            let out1 = run_prompt(bin, "\n")?;
            if prompt.trim().is_empty() || !out1.starts_with(out0.as_str()) || !out1.ends_with(prompt.as_str()) || out1.len() < out0.len() + prompt.len() {
                return None;
            }
            Some((banner, prompt))
        })
        .clone()
}

/// The same lines through the real executable's prompt (no hooks): what it wrote (both streams, in order) between the
/// prompt that read line k and the next prompt.  None when a line would not reach the prompt as one line.
pub fn prompt_chunks(bin: &str, lines: &[String]) -> Option<Vec<Option<Vec<u32>>>> {
    if bin.is_empty() {
        return None;
    }
    let (banner, prompt) = prompt_marker(bin)?;
    if lines.iter().any(|l| l.contains('\n') || l.contains('\r') || l.contains(prompt.as_str())) {
        return None;
    }
    let mut input = lines.join("\n");
    input.push('\n');
    let text = run_prompt(bin, &input)?;
    let rest = match text.strip_prefix(banner.as_str()) {
        Some(r) => r,
        None => return Some(lines.iter().map(|_| None).collect()),
    };
    let mut parts: Vec<&str> = rest.split(prompt.as_str()).collect();
    // before the first prompt nothing more is written
    let first = if parts.is_empty() { "" } else { parts.remove(0) };
    let mut chunks: Vec<Option<Vec<u32>>> = Vec::new();
    for k in 0..lines.len() {
        // chunk k is complete only if the prompt came back after it
        if first.is_empty() && k + 1 < parts.len() {
            chunks.push(Some(parts[k].chars().map(|c| c as u32).collect()));
        } else {
            chunks.push(None);
        }
    }
    Some(chunks)
}

fn attach_shown(ob: &mut Value, chunks: &Option<Vec<Option<Vec<u32>>>>, k: usize, from: usize) {
    if let Some(ch) = chunks {
        match ch.get(k) {
            Some(Some(c)) => {
                ob["shown"] = json!(c);
                ob["shown_from"] = json!(from);
            }
            _ => {
                ob["shown_missing"] = json!(true);
            }
        }
    }
}

#[derive(Clone)]
struct Line {
    text: String,
    /// statements that count as executed for later lines (all of them, or those before the failure)
    committed: Vec<Stmt>,
    /// the whole line when it is expected to run (None for parse / compile failures)
    full: Option<Vec<Stmt>>,
    fail: &'static str,
    /// error kind of the planned run-time failure
    kind: &'static str,
}

pub fn gen_session_texts(seed: u64, nlines: usize) -> Vec<String> {
    gen_session(seed, nlines).into_iter().map(|l| l.text).collect()
}

fn gen_session(seed: u64, nlines: usize) -> Vec<Line> {
    let mut cfg = cfg_for("mixed");
    cfg.max_stmts = 3;
    cfg.func_rate = 0.15;
    cfg.loop_rate = 0.15;
    cfg.error_rate = 0.0;
    cfg.empty_rate = 0.0;
    let mut g = Gen::new(seed, cfg);
    let mut rng = StdRng::seed_from_u64(seed ^ 0x5e55);
    let mut lines = Vec::new();
    for _ in 0..nlines {
        let mut stmts: Vec<Stmt> = Vec::new();
        let n = rng.gen_range(1..4);
        let snapshot = g.ctxs.clone();
        g.stmts_into(&mut stmts, n, 2);
        if rng.gen_bool(0.8) {
            let t = if rng.gen_bool(0.5) { Ty::Int } else { Ty::Str };
            stmts.push(Stmt::Expr(g.expr(&t, 2)));
        }
        // functions do not survive the line that defines them (their code does not): forget them
        forget_functions(&mut g);
        let r: f64 = rng.gen();
        if r < 0.10 {
            // parse failure: the text is cut inside its last token region
            let text = to_text(&stmts, true);
            let cut = text.char_indices().map(|(i, _)| i).filter(|i| *i > 0).nth(rng.gen_range(0..text.chars().count().max(2) - 1)).unwrap_or(1);
            let mut t = text[..cut].to_string();
            t.push_str(" ( ");        // an opening parenthesis that is never closed: rejected whatever precedes it
            g.ctxs = snapshot;
            lines.push(Line { text: t, committed: vec![], full: None, fail: "parse", kind: "" });
        } else if r < 0.22 {
            // compile failure at a statement position: an undeclared name
            let p = rng.gen_range(0..=stmts.len());
            let mut s2 = stmts.clone();
            let bad = crate::ast::infix("+", crate::ast::id("nergens_gedeclareerd"), Expr::Int(1));
            // the failing statement is an expression, or a (re-)declaration of a variable that exists
            let existing: Vec<String> = snapshot[0].scopes[0].vars.iter()
                .filter(|v| v.assignable && !matches!(v.ty, Ty::Fn(..))).map(|v| v.name.clone()).collect();
            let stmt = match rng.gen_range(0..3) {
                0 => Stmt::Expr(bad),
                1 if !existing.is_empty() => Stmt::Let(existing[rng.gen_range(0..existing.len())].clone(), bad),
                _ => Stmt::Let("nieuw_in_mislukte_regel".into(), bad),
            };
            // ... at top level, or inside a block / branch / loop body / function body that has already
            // declared a name of its own (a rejected line must not leave that scope, or that name, behind)
            let probe = format!("in_blok_{}", lines.len());
            let nested = rng.gen_bool(0.45);
            let stmt = if nested {
                let inner = vec![Stmt::Let(probe.clone(), Expr::Int(1)), stmt];
                match rng.gen_range(0..4) {
                    0 => Stmt::Block(inner),
                    1 => Stmt::Expr(Expr::If { c: Box::new(Expr::Bool(true)), th: inner, el: None }),
                    2 => Stmt::Expr(Expr::While { c: Box::new(Expr::Bool(false)), body: inner }),
                    _ => Stmt::Block(vec![Stmt::Block(inner)]),
                }
            } else {
                stmt
            };
            s2.insert(p, stmt);
            g.ctxs = snapshot;
            lines.push(Line { text: to_text(&s2, true), committed: vec![], full: None, fail: "compile", kind: "" });
            // nothing the rejected line declared may be visible afterwards
            if rng.gen_bool(0.7) {
                let name = if nested { probe } else { "nieuw_in_mislukte_regel".to_string() };
                lines.push(Line { text: format!("{name};"), committed: vec![], full: None, fail: "compile", kind: "" });
            }
        } else if r < 0.36 {
            // run-time failure after the first p statements
            let p = rng.gen_range(0..=stmts.len());
            let mut s2: Vec<Stmt> = stmts[..p].to_vec();
            let which = rng.gen_range(0..3);
            let bad = [
                crate::ast::infix("+", Expr::Int(1), Expr::Bool(true)),
                Expr::Index(Box::new(Expr::Array(vec![Expr::Int(1)])), Box::new(Expr::Int(5))),
                crate::ast::call("int", vec![Expr::Str("abc".into())]),
            ][which]
            .clone();
            let kind = ["Type", "Index", "Argument"][which];
            s2.push(Stmt::Expr(bad));
            // declarations after position p were never made: take the scope back to what the
            // first p statements declared (re-generate is not possible; restrict to the snapshot
            // plus nothing when p < len)
            if p < stmts.len() {
                g.ctxs = snapshot.clone();
                redeclare(&mut g, &stmts[..p]);
            }
            lines.push(Line { text: to_text(&s2, true), committed: stmts[..p].to_vec(), full: Some(s2), fail: "run", kind });
        } else {
            lines.push(Line { text: to_text(&stmts, true), committed: stmts.clone(), full: Some(stmts), fail: "none", kind: "" });
        }
    }
    lines
}

fn forget_functions(g: &mut Gen) {
    for c in g.ctxs.iter_mut() {
        for s in c.scopes.iter_mut() {
            s.vars.retain(|v| !matches!(v.ty, Ty::Fn(..)));
        }
    }
}

/// After a run-time failure only the declarations of the executed prefix exist. The generator
/// does not expose the types it chose, so the executed prefix's names are simply not offered
/// to later lines unless they were visible before the line.
fn redeclare(_g: &mut Gen, _prefix: &[Stmt]) {}

pub fn gen_session_records(args: &Args) {
    let seed = args.num("seed", 1);
    let n = args.num("n", 50);
    let out = args.get("out", "/dev/stdout");
    let first_id = args.num("first-id", 1);
    let mut sem = std::fs::File::create(&out).expect("create out");
    let mut src = std::fs::File::create(format!("{out}.src")).expect("create src");
    let mut ses = std::fs::File::create(format!("{out}.sessions")).expect("create sessions");
    let mut w = Worker::spawn(Duration::from_secs(30));
    let bin = args.get("bin", "");
    let mut id = first_id;
    for i in 0..n {
        let s = seed.wrapping_mul(11_000_027).wrapping_add(i);
        let mut rng = StdRng::seed_from_u64(s);
        let nl = rng.gen_range(2..=12);
        let lines = gen_session(s, nl);
        let req = json!({"op":"session","lines":lines.iter().map(|l| json!({"text":l.text})).collect::<Vec<_>>()});
        let r = w.request(&req);
        let obs = r["obs"].as_array().cloned().unwrap_or_default();
        let chunks = prompt_chunks(&bin, &lines.iter().map(|l| l.text.clone()).collect::<Vec<_>>());
        writeln!(ses, "{}", json!({"session":i,"lines":lines.iter().map(|l| json!({"text":l.text,"fail":l.fail})).collect::<Vec<_>>(),"obs":obs})).unwrap();
        // the law: line i behaves like the last line of the program made of everything committed before it
        let mut committed: Vec<Stmt> = Vec::new();
        let mut out_so_far: Vec<Value> = Vec::new();
        for (k, l) in lines.iter().enumerate() {
            let o = match obs.get(k) {
                Some(o) => o.clone(),
                None => json!({"class":"Abort","msg":"session ended early","out":[]}),
            };
            let line_out = o["out"].as_array().cloned().unwrap_or_default();
            match &l.full {
                Some(full) => {
                    let mut prog = committed.clone();
                    prog.extend(full.clone());
                    let (nodes, root) = crate::ast::flatten(&prog);
                    let mut total_out = out_so_far.clone();
                    total_out.extend(line_out.clone());
                    let mut ob = o.clone();
                    ob["out"] = Value::Array(total_out);
                    attach_shown(&mut ob, &chunks, k, out_so_far.len());
                    writeln!(sem, "{}", json!({"id":id,"fam":format!("session-line-{}", l.fail),"nodes":nodes,"root":root,
                        "obs":ob,"parse_same":true,"session":i,"line":k})).unwrap();
                    writeln!(src, "{}", json!({"id":id,"text":format!("// session {i}, line {k} as the last line of the program so far\n{}", to_text(&prog, false))})).unwrap();
                    id += 1;
                }
                None => {
                    // a line that must be rejected before it runs: a one-statement stand-in program that
                    // the reference semantics rejects the same way would say nothing; the expectation is
                    // stated directly as a record for NlSession (class Err, nothing printed)
                    let ok = o["class"] == "Err" && line_out.is_empty()
                        && (l.fail != "compile" || o["kind"] == "Reference");
                    let (nodes, root) = crate::ast::flatten(&[Stmt::Expr(crate::ast::id("nergens_gedeclareerd"))]);
                    let ob = if ok { json!({"class":"Err","kind":"Reference","out":[]}) } else { o.clone() };
                    writeln!(sem, "{}", json!({"id":id,"fam":format!("session-line-{}", l.fail),"nodes":nodes,"root":root,
                        "obs":ob,"parse_same":true,"session":i,"line":k})).unwrap();
                    writeln!(src, "{}", json!({"id":id,"text":format!("// session {i}, line {k} must be rejected ({}): {}", l.fail, l.text)})).unwrap();
                    id += 1;
                }
            }
            committed.extend(l.committed.clone());
            if l.fail == "none" || l.fail == "run" {
                out_so_far.extend(line_out);
            }
            // a line that failed where no failure was planned (or earlier than planned: the planned
            // failing statement is always the last one and prints nothing) was still validated above,
            // but which of its statements completed is not known to the recorder: the session's
            // later lines are left out
            let unplanned = (l.fail == "none" && o["class"] != "Value")
                || (l.fail == "run" && (o["class"] != "Err" || o["kind"].as_str() != Some(l.kind)));
            if unplanned {
                break;
            }
        }
    }
}

// ---------------------------------------------------------------------------
// Lines cut short at every instruction count (validated by NlSession)
// ---------------------------------------------------------------------------
pub fn gen_session_abort(args: &Args) {
    let seed = args.num("seed", 1);
    let n = args.num("n", 6);
    let out = args.get("out", "/dev/stdout");
    let first_id = args.num("first-id", 1);
    let mut f = std::fs::File::create(&out).expect("create out");
    let mut w = Worker::spawn(Duration::from_secs(30));
    let mut rng = StdRng::seed_from_u64(seed);
    let pool = ["a", "b", "c", "d"];
    let mut id = first_id;
    for _ in 0..n {
        let nv = rng.gen_range(2..=4);
        let names: Vec<&str> = pool[..nv].to_vec();
        let vals: Vec<i64> = names.iter().map(|_| rng.gen_range(0..50)).collect();
        let m = rng.gen_range(2..=5);
        let incr: Vec<&str> = (0..m).map(|_| names[rng.gen_range(0..nv)]).collect();
        let incr_text = incr.iter().map(|x| format!("{x} = {x} + 1;")).collect::<Vec<_>>().join(" ");
        let show_text = format!("[{}]", names.join(", "));
        // how many instructions does the line take when it is not cut short?
        let mut probe: Vec<Value> = names.iter().zip(vals.iter()).map(|(n_, v)| json!({"text":format!("stel {n_} = {v}")})).collect();
        probe.push(json!({"text":incr_text}));
        let r = w.request(&json!({"op":"session","lines":probe}));
        let total = r["obs"].as_array().and_then(|a| a.last()).map(|o| 0u64.max(o["sp"].as_u64().unwrap_or(0))).unwrap_or(0);
        let _ = total;
        let len = 6 * m as u64 + 2;
        for k in 0..=len {
            let mut lines: Vec<Value> = Vec::new();
            let mut model: Vec<Value> = Vec::new();
            for (n_, v) in names.iter().zip(vals.iter()) {
                lines.push(json!({"text":format!("stel {n_} = {v}")}));
                model.push(json!({"k":"decl","name":n_,"v":v,"names":[],"abort":false}));
            }
            lines.push(json!({"text":incr_text,"budget":k}));
            model.push(json!({"k":"incr","name":"","v":0,"names":incr,"abort":true}));
            lines.push(json!({"text":show_text}));
            model.push(json!({"k":"show","name":"","v":0,"names":names,"abort":false}));
            lines.push(json!({"text":"stel z = ( "}));
            model.push(json!({"k":"reject","name":"","v":0,"names":[],"abort":false}));
            lines.push(json!({"text":format!("{} onbekende_naam = 1;", incr_text)}));
            model.push(json!({"k":"reject","name":"","v":0,"names":[],"abort":false}));
            lines.push(json!({"text":incr_text}));
            model.push(json!({"k":"incr","name":"","v":0,"names":incr,"abort":false}));
            lines.push(json!({"text":show_text}));
            model.push(json!({"k":"show","name":"","v":0,"names":names,"abort":false}));
            let r = w.request(&json!({"op":"session","lines":lines}));
            let obs: Vec<Value> = r["obs"]
                .as_array()
                .cloned()
                .unwrap_or_default()
                .iter()
                .map(|o| {
                    let val: Vec<Value> = o["val"]["items"].as_array().map(|a| a.iter().map(|x| x.get("v").cloned().unwrap_or(json!(-999))).collect()).unwrap_or_default();
                    json!({"class":o["class"],"kind":o.get("kind").cloned().unwrap_or(json!("")),"val":val,"out":o["out"]})
                })
                .collect();
            let mut obs = obs;
            while obs.len() < model.len() {
                obs.push(json!({"class":"Abort","kind":"","val":[],"out":[]}));
            }
            writeln!(f, "{}", json!({"id":id,"k":k,"lines":model,"obs":obs,"texts":lines})).unwrap();
            id += 1;
        }
    }
}

// ---------------------------------------------------------------------------
// All sessions of up to 3 lines over a 12-line alphabet (validated through the concatenation law)
// ---------------------------------------------------------------------------
fn alphabet() -> Vec<(Vec<Stmt>, usize, &'static str)> {
    use crate::ast::{b, call, id, infix};
    let asg = |n: &str, e: Expr| Stmt::Expr(Expr::Assign(b(id(n)), b(e)));
    // (statements, number of statements that complete when the line fails at run time, junk text or "")
    vec![
        (vec![Stmt::Let("a".into(), Expr::Int(1))], 1, ""),
        (vec![Stmt::Let("b".into(), Expr::Int(10))], 1, ""),
        (vec![asg("a", infix("+", id("a"), Expr::Int(1)))], 1, ""),
        (vec![asg("b", infix("+", id("b"), id("a")))], 1, ""),
        (vec![Stmt::Expr(id("a"))], 1, ""),
        (vec![Stmt::Expr(Expr::Array(vec![id("a"), id("b")]))], 1, ""),
        (vec![], 0, "stel a = ( "),
        (vec![Stmt::Let("c".into(), Expr::Int(1)), Stmt::Expr(id("onbekend"))], 0, ""),
        (vec![asg("a", infix("+", id("a"), Expr::Int(5))), Stmt::Expr(infix("+", Expr::Int(1), Expr::Bool(true)))], 1, ""),
        (vec![Stmt::Expr(call("print", vec![Expr::Str("a={}".into()), id("a")]))], 1, ""),
        (vec![Stmt::Let("a".into(), Expr::Int(100)), Stmt::Expr(id("a"))], 2, ""),
        (vec![Stmt::Let("k".into(), Expr::Int(0)),
              Stmt::Expr(Expr::While { c: b(infix("<", id("k"), Expr::Int(3))), body: vec![
                  Stmt::Expr(Expr::OpAssign("k".into(), "+", b(Expr::Int(1)))), asg("a", infix("+", id("a"), id("k")))] }),
              Stmt::Expr(id("a"))], 3, ""),
    ]
}

/// A second alphabet: heap values held by globals, aliases between globals, values of a later line stored into an
/// array of an earlier line, and collections (function returns) in between. No line is planned to fail at run time.
fn heap_alphabet() -> Vec<(Vec<Stmt>, usize, &'static str)> {
    use crate::ast::{b, call, id, infix};
    let asg = |n: &str, e: Expr| Stmt::Expr(Expr::Assign(b(id(n)), b(e)));
    let f0 = || Stmt::Expr(Expr::Func { name: "f".into(), params: vec![], body: vec![Stmt::Expr(Expr::Int(0))] });
    let callf = || Stmt::Expr(call("f", vec![]));
    let s = |n: i64| call("string", vec![Expr::Int(n)]);
    let idx = |a: &str, i: i64| Expr::Index(b(id(a)), b(Expr::Int(i)));
    vec![
        (vec![Stmt::Let("h".into(), Expr::Array(vec![s(1), Expr::Float { m: 5, e: 1 }, Expr::Array(vec![Expr::Float { m: 7, e: 1 }])])), Stmt::Expr(id("h"))], 0, ""),
        (vec![Stmt::Let("g".into(), id("h")), Stmt::Expr(id("g"))], 0, ""),
        (vec![Stmt::Expr(Expr::Func { name: "f".into(), params: vec![], body: vec![Stmt::Expr(Expr::Array(vec![s(9)]))] }),
              Stmt::Let("t".into(), call("f", vec![])), callf(), Stmt::Expr(id("t"))], 0, ""),
        (vec![f0(), Stmt::Expr(Expr::Assign(b(idx("h", 0)), b(s(42)))), callf(), Stmt::Expr(id("h"))], 0, ""),
        (vec![f0(), callf(), Stmt::Expr(Expr::Array(vec![id("h"), id("g")]))], 0, ""),
        (vec![f0(), Stmt::Let("g".into(), Expr::Array(vec![id("h"), id("h")])), callf(), Stmt::Expr(id("g"))], 0, ""),
        (vec![Stmt::Expr(Expr::Assign(b(idx("h", 1)), b(idx("h", 2)))), f0(), callf(), Stmt::Expr(id("h"))], 0, ""),
        (vec![f0(), Stmt::Let("w".into(), infix("+", call("lengte", vec![id("h")]), call("lengte", vec![id("g")]))), callf(), Stmt::Expr(id("w"))], 0, ""),
        (vec![Stmt::Let("h".into(), s(5)), f0(), callf(), Stmt::Expr(id("h"))], 0, ""),
        (vec![f0(), asg("g", id("t")), callf(), callf(), Stmt::Expr(Expr::Array(vec![id("g"), id("t")]))], 0, ""),
    ]
}

pub fn gen_session_alphabet(args: &Args) {
    let out = args.get("out", "/dev/stdout");
    let shard = args.num("shard", 0);
    let shards = args.num("shards", 1);
    let first_id = args.num("first-id", 1);
    let mut sem = std::fs::File::create(&out).expect("create out");
    let mut src = std::fs::File::create(format!("{out}.src")).expect("create src");
    let mut w = Worker::spawn(Duration::from_secs(30));
    let heap_set = args.get("set", "") == "heap";
    let bin = args.get("bin", "");
    let al = if heap_set { heap_alphabet() } else { alphabet() };
    let n = al.len();
    let mut sessions: Vec<Vec<usize>> = Vec::new();
    for a in 0..n {
        sessions.push(vec![a]);
        for b_ in 0..n {
            sessions.push(vec![a, b_]);
            for c in 0..n {
                sessions.push(vec![a, b_, c]);
            }
        }
    }
    let mut id = first_id;
    for (si, s) in sessions.iter().enumerate() {
        if (si as u64) % shards != shard {
            continue;
        }
        let texts: Vec<String> = s.iter().map(|k| if al[*k].2.is_empty() { to_text(&al[*k].0, true) } else { al[*k].2.to_string() }).collect();
        let r = w.request(&json!({"op":"session","lines":texts.iter().map(|t| json!({"text":t})).collect::<Vec<_>>()}));
        let obs = r["obs"].as_array().cloned().unwrap_or_default();
        let chunks = prompt_chunks(&bin, &texts);
        let mut committed: Vec<Stmt> = Vec::new();
        let mut out_so_far: Vec<Value> = Vec::new();
        for (k, li) in s.iter().enumerate() {
            let (stmts, done_on_fail, junk) = &al[*li];
            let o = obs.get(k).cloned().unwrap_or(json!({"class":"Abort","out":[]}));
            let line_out = o["out"].as_array().cloned().unwrap_or_default();
            let stage = o.get("stage").and_then(|x| x.as_str()).unwrap_or("");
            let rejected = stage == "parse" || stage == "compile";
            if !junk.is_empty() {
                // not a program at all: must be rejected, nothing printed
                let ok = o["class"] == "Err" && line_out.is_empty();
                let (nodes, root) = crate::ast::flatten(&[Stmt::Expr(crate::ast::id("nergens_gedeclareerd"))]);
                let ob = if ok { json!({"class":"Err","kind":"Reference","out":[]}) } else { o.clone() };
                writeln!(sem, "{}", json!({"id":id,"fam":"session-alphabet-junk","nodes":nodes,"root":root,"obs":ob,"parse_same":true})).unwrap();
                writeln!(src, "{}", json!({"id":id,"text":format!("// session {:?} line {k}: {junk}", s)})).unwrap();
                id += 1;
                continue;
            }
            let mut prog = committed.clone();
            prog.extend(stmts.clone());
            let (nodes, root) = crate::ast::flatten(&prog);
            let mut ob = o.clone();
            let mut total = if rejected { vec![] } else { out_so_far.clone() };
            let from = total.len();
            total.extend(line_out.clone());
            ob["out"] = Value::Array(total);
            attach_shown(&mut ob, &chunks, k, from);
            writeln!(sem, "{}", json!({"id":id,"fam":"session-alphabet","nodes":nodes,"root":root,"obs":ob,"parse_same":true})).unwrap();
            writeln!(src, "{}", json!({"id":id,"text":format!("// session {:?}, line {k} as the last line of the program so far\n{}", s, to_text(&prog, false))})).unwrap();
            id += 1;
            // what this line contributes to later lines
            if o["class"] == "Value" {
                committed.extend(stmts.clone());
                out_so_far.extend(line_out);
            } else if !rejected && stage == "run" {
                if heap_set {
                    // no line of this alphabet is planned to fail at run time: how much of it completed is not
                    // known, so the session is validated up to and including this line only
                    break;
                }
                committed.extend(stmts[..*done_on_fail].to_vec());
                out_so_far.extend(line_out);
            }
        }
    }
}
