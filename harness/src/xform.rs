//! Program transformations whose images must be observationally equal to the original
//! (C09: renaming, unused shadowing declaration, undeclared name; C10: wrap in a function,
//! literal -> variable, mirrored operands, prepended literals).

use crate::ast::*;
use rand::rngs::StdRng;
use rand::seq::SliceRandom;
use rand::Rng;

pub fn walk_exprs_mut(stmts: &mut Vec<Stmt>, f: &mut dyn FnMut(&mut Expr)) {
    for s in stmts.iter_mut() {
        match s {
            Stmt::Let(_, e) | Stmt::Return(e) | Stmt::Expr(e) => walk_expr_mut(e, f),
            Stmt::Block(b) => walk_exprs_mut(b, f),
            Stmt::Break | Stmt::Continue => {}
        }
    }
}

pub fn walk_expr_mut(e: &mut Expr, f: &mut dyn FnMut(&mut Expr)) {
    f(e);
    match e {
        Expr::Prefix(_, r) => walk_expr_mut(r, f),
        Expr::Infix(_, l, r) => {
            walk_expr_mut(l, f);
            walk_expr_mut(r, f);
        }
        Expr::If { c, th, el } => {
            walk_expr_mut(c, f);
            walk_exprs_mut(th, f);
            if let Some(el) = el {
                walk_exprs_mut(el, f);
            }
        }
        Expr::While { c, body } => {
            walk_expr_mut(c, f);
            walk_exprs_mut(body, f);
        }
        Expr::Func { body, .. } => walk_exprs_mut(body, f),
        Expr::Call { f: callee, args } => {
            walk_expr_mut(callee, f);
            for a in args.iter_mut() {
                walk_expr_mut(a, f);
            }
        }
        Expr::Assign(l, r) => {
            walk_expr_mut(l, f);
            walk_expr_mut(r, f);
        }
        Expr::OpAssign(_, _, r) => walk_expr_mut(r, f),
        Expr::Array(vs) => {
            for a in vs.iter_mut() {
                walk_expr_mut(a, f);
            }
        }
        Expr::Index(l, i) => {
            walk_expr_mut(l, f);
            walk_expr_mut(i, f);
        }
        _ => {}
    }
}

/// Visit every statement list (the program itself, blocks, branches, loop and function bodies)
pub fn walk_blocks_mut(stmts: &mut Vec<Stmt>, depth: usize, f: &mut dyn FnMut(&mut Vec<Stmt>, usize)) {
    f(stmts, depth);
    for s in stmts.iter_mut() {
        match s {
            Stmt::Let(_, e) | Stmt::Return(e) | Stmt::Expr(e) => blocks_in_expr(e, depth, f),
            Stmt::Block(b) => walk_blocks_mut(b, depth + 1, f),
            _ => {}
        }
    }
}

fn blocks_in_expr(e: &mut Expr, depth: usize, f: &mut dyn FnMut(&mut Vec<Stmt>, usize)) {
    match e {
        Expr::Prefix(_, r) => blocks_in_expr(r, depth, f),
        Expr::Infix(_, l, r) | Expr::Assign(l, r) | Expr::Index(l, r) => {
            blocks_in_expr(l, depth, f);
            blocks_in_expr(r, depth, f);
        }
        Expr::OpAssign(_, _, r) => blocks_in_expr(r, depth, f),
        Expr::If { c, th, el } => {
            blocks_in_expr(c, depth, f);
            walk_blocks_mut(th, depth + 1, f);
            if let Some(el) = el {
                walk_blocks_mut(el, depth + 1, f);
            }
        }
        Expr::While { c, body } => {
            blocks_in_expr(c, depth, f);
            walk_blocks_mut(body, depth + 1, f);
        }
        Expr::Func { body, .. } => walk_blocks_mut(body, depth + 1, f),
        Expr::Call { f: callee, args } => {
            blocks_in_expr(callee, depth, f);
            for a in args.iter_mut() {
                blocks_in_expr(a, depth, f);
            }
        }
        Expr::Array(vs) => {
            for a in vs.iter_mut() {
                blocks_in_expr(a, depth, f);
            }
        }
        _ => {}
    }
}

/// All identifier names that occur anywhere (uses, declarations, parameters, function names)
pub fn all_names(prog: &[Stmt]) -> Vec<String> {
    let mut p = prog.to_vec();
    let mut names: Vec<String> = Vec::new();
    let mut add = |n: &str| {
        if !n.is_empty() && !names.iter().any(|x| x == n) {
            names.push(n.to_string());
        }
    };
    fn lets(stmts: &[Stmt], add: &mut dyn FnMut(&str)) {
        for s in stmts {
            match s {
                Stmt::Let(n, _) => add(n),
                Stmt::Block(b) => lets(b, add),
                _ => {}
            }
        }
    }
    let mut blocks: Vec<Vec<Stmt>> = Vec::new();
    walk_blocks_mut(&mut p, 0, &mut |b, _| blocks.push(b.clone()));
    for b in &blocks {
        lets(b, &mut add);
    }
    walk_exprs_mut(&mut p, &mut |e| match e {
        Expr::Ident(n) => add(n),
        Expr::OpAssign(n, _, _) => add(n),
        Expr::Func { name, params, .. } => {
            add(name);
            for q in params.iter() {
                add(q);
            }
        }
        _ => {}
    });
    names
}

pub const BUILTINS: [&str; 7] = ["print", "type", "bool", "float", "int", "string", "lengte"];

/// Consistent renaming of the identifier `from` (every declaration and use) to `to`
pub fn rename(prog: &[Stmt], from: &str, to: &str) -> Vec<Stmt> {
    let mut p = prog.to_vec();
    fn ren_stmts(stmts: &mut Vec<Stmt>, from: &str, to: &str) {
        for s in stmts.iter_mut() {
            match s {
                Stmt::Let(n, _) if n == from => *n = to.to_string(),
                Stmt::Block(b) => ren_stmts(b, from, to),
                _ => {}
            }
        }
    }
    let mut q = p.clone();
    let _ = &mut q;
    walk_blocks_mut(&mut p, 0, &mut |b, _| {
        for s in b.iter_mut() {
            if let Stmt::Let(n, _) = s {
                if n == from {
                    *n = to.to_string();
                }
            }
        }
    });
    let _ = ren_stmts;
    walk_exprs_mut(&mut p, &mut |e| match e {
        Expr::Ident(n) if n == from => *n = to.to_string(),
        Expr::OpAssign(n, _, _) if n == from => *n = to.to_string(),
        Expr::Func { name, params, .. } => {
            if name == from {
                *name = to.to_string();
            }
            for q in params.iter_mut() {
                if q == from {
                    *q = to.to_string();
                }
            }
        }
        _ => {}
    });
    p
}

fn names_used_in(stmts: &[Stmt]) -> Vec<String> {
    all_names(stmts)
}

/// Insert `stel X = 0` at the start of some inner block, for a name X that is declared
/// elsewhere in the program but not mentioned inside that block.
pub fn insert_unused_shadow(prog: &[Stmt], rng: &mut StdRng) -> Option<Vec<Stmt>> {
    let names: Vec<String> = all_names(prog)
        .into_iter()
        .filter(|n| !BUILTINS.contains(&n.as_str()))
        .collect();
    let mut p = prog.to_vec();
    // candidate blocks: (index in visiting order, names usable)
    let mut cands: Vec<(usize, Vec<String>)> = Vec::new();
    let mut idx = 0usize;
    walk_blocks_mut(&mut p, 0, &mut |b, depth| {
        if depth > 0 && !b.is_empty() {
            let used = names_used_in(b);
            let free: Vec<String> = names.iter().filter(|n| !used.contains(n)).cloned().collect();
            if !free.is_empty() {
                cands.push((idx, free));
            }
        }
        idx += 1;
    });
    let (target, free) = cands.choose(rng)?.clone();
    let name = free.choose(rng)?.clone();
    let mut idx = 0usize;
    walk_blocks_mut(&mut p, 0, &mut |b, _| {
        if idx == target {
            b.insert(0, Stmt::Let(name.clone(), Expr::Int(0)));
        }
        idx += 1;
    });
    Some(p)
}

/// Replace one identifier use by a name that is declared nowhere
pub fn undeclare(prog: &[Stmt], rng: &mut StdRng) -> Option<Vec<Stmt>> {
    let mut p = prog.to_vec();
    let mut count = 0usize;
    walk_exprs_mut(&mut p, &mut |e| {
        if let Expr::Ident(n) = e {
            if !BUILTINS.contains(&n.as_str()) {
                count += 1;
            }
        }
    });
    if count == 0 {
        return None;
    }
    let target = rng.gen_range(0..count);
    let mut i = 0usize;
    walk_exprs_mut(&mut p, &mut |e| {
        if let Expr::Ident(n) = e {
            if !BUILTINS.contains(&n.as_str()) {
                if i == target {
                    *n = "nergens_gedeclareerd".to_string();
                }
                i += 1;
            }
        }
    });
    Some(p)
}

/// `functie hoofd() { <program> }; hoofd()` -- globals become locals
pub fn wrap_in_function(prog: &[Stmt]) -> Vec<Stmt> {
    vec![
        Stmt::Expr(Expr::Func {
            name: "hoofd".to_string(),
            params: vec![],
            body: prog.to_vec(),
        }),
        Stmt::Expr(call("hoofd", vec![])),
    ]
}

/// Replace one non-negative integer literal that is an operand of a binary operator by a
/// fresh top-level variable holding it.
pub fn literal_to_variable(prog: &[Stmt], rng: &mut StdRng) -> Option<Vec<Stmt>> {
    let mut p = prog.to_vec();
    let mut count = 0usize;
    walk_exprs_mut(&mut p, &mut |e| {
        if let Expr::Infix(_, l, r) = e {
            if matches!(**l, Expr::Int(_)) {
                count += 1;
            }
            if matches!(**r, Expr::Int(_)) {
                count += 1;
            }
        }
    });
    if count == 0 {
        return None;
    }
    let target = rng.gen_range(0..count);
    let mut i = 0usize;
    let mut value = 0i64;
    let name = "konst_0";
    walk_exprs_mut(&mut p, &mut |e| {
        if let Expr::Infix(_, l, r) = e {
            for side in [l, r] {
                if let Expr::Int(v) = **side {
                    if i == target {
                        value = v;
                        **side = id(name);
                    }
                    i += 1;
                }
            }
        }
    });
    p.insert(0, Stmt::Let(name.to_string(), Expr::Int(value)));
    Some(p)
}

pub fn mirror_op(op: &str) -> Option<&'static str> {
    Some(match op {
        "+" => "+",
        "*" => "*",
        "==" => "==",
        "!=" => "!=",
        "<" => ">",
        ">" => "<",
        "<=" => ">=",
        ">=" => "<=",
        _ => return None,
    })
}

/// Mirror every `literal op name` / `name op literal` whose operator has a mirror image
pub fn mirror(prog: &[Stmt]) -> Option<Vec<Stmt>> {
    let mut p = prog.to_vec();
    let mut n = 0usize;
    walk_exprs_mut(&mut p, &mut |e| {
        if let Expr::Infix(op, l, r) = e {
            let simple = |x: &Expr| matches!(x, Expr::Int(_) | Expr::Ident(_));
            let mixed = matches!((&**l, &**r), (Expr::Int(_), Expr::Ident(_)) | (Expr::Ident(_), Expr::Int(_)));
            if simple(l) && simple(r) && mixed {
                if let Some(m) = mirror_op(op) {
                    std::mem::swap(l, r);
                    *op = m;
                    n += 1;
                }
            }
        }
    });
    if n == 0 {
        None
    } else {
        Some(p)
    }
}

/// Prepend expression statements that mention literals of the program (and others): this
/// shifts and merges constant-pool entries without changing the meaning.
pub fn prepend_literals(prog: &[Stmt], rng: &mut StdRng) -> Vec<Stmt> {
    let mut p = prog.to_vec();
    let mut ints: Vec<i64> = Vec::new();
    let mut floats: Vec<(i64, u32)> = Vec::new();
    walk_exprs_mut(&mut p, &mut |e| match e {
        Expr::Int(v) => ints.push(*v),
        Expr::Float { m, e } => floats.push((*m, *e)),
        _ => {}
    });
    let mut pre: Vec<Stmt> = Vec::new();
    pre.push(Stmt::Expr(Expr::Int(rng.gen_range(100000..200000))));
    for _ in 0..3 {
        if let Some(v) = ints.choose(rng) {
            pre.push(Stmt::Expr(Expr::Int(*v)));
        }
    }
    if let Some((m, e)) = floats.choose(rng) {
        pre.push(Stmt::Expr(Expr::Float { m: *m, e: *e }));
    }
    pre.push(Stmt::Expr(Expr::Float { m: 12345, e: 3 }));
    pre.push(Stmt::Expr(Expr::Str("voorloper_tekst".to_string())));
    pre.push(Stmt::Expr(Expr::Bool(true)));
    pre.extend(p);
    pre
}
