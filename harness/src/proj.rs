//! Projection of implementation values to JSON, through the public accessors only.

use nederlang::object::{Object, Type};
use serde_json::{json, Value};

/// m, e with x = m / 2^e exactly, |m| < 2^30, e <= 30; None otherwise (incl. -0, inf, NaN)
pub fn dyadic(x: f64) -> Option<(i64, u32)> {
    if !x.is_finite() {
        return None;
    }
    if x == 0.0 {
        return if x.is_sign_negative() { None } else { Some((0, 0)) };
    }
    let mut e = 0u32;
    let mut y = x;
    while y.fract() != 0.0 {
        y *= 2.0;
        e += 1;
        if e > 30 {
            return None;
        }
    }
    if y.abs() >= (1u64 << 30) as f64 {
        return None;
    }
    Some((y as i64, e))
}

pub fn cps(s: &str) -> Value {
    Value::Array(s.chars().map(|c| json!(c as u32)).collect())
}

/// Tree-unfolding of a value to `depth` array levels (the TLA+ operator `Unfold`).
pub fn unfold(o: Object, depth: usize) -> Value {
    match o.tag() {
        Type::Null => json!({"t":"N"}),
        Type::Bool => json!({"t":"B","v":o.as_bool()}),
        Type::Int => {
            let v = o.as_int() as i64;
            if v.abs() < (1 << 30) {
                json!({"t":"I","v":v})
            } else {
                json!({"t":"I","big":v.to_string()})
            }
        }
        Type::Float => {
            let x = o.as_f64();
            match dyadic(x) {
                Some((m, e)) => json!({"t":"F","m":m,"e":e}),
                None => json!({"t":"F","bits":x.to_bits().to_string()}),
            }
        }
        Type::String => json!({"t":"S","cp":cps(o.as_str())}),
        Type::Function => json!({"t":"Fn"}),
        Type::Array => {
            if depth == 0 {
                json!({"t":"Cut"})
            } else {
                let items: Vec<Value> = o.as_vec().iter().map(|x| unfold(*x, depth - 1)).collect();
                json!({"t":"A","items":items})
            }
        }
    }
}

/// Release the result graph of an evaluation: each distinct heap box once.
pub fn release(o: Object) {
    fn collect(o: Object, seen: &mut Vec<u64>, boxes: &mut Vec<Object>) {
        if !o.is_heap_allocated() {
            return;
        }
        let id = nederlang::verif::shadow_id_of(o);
        if seen.contains(&id) {
            return;
        }
        seen.push(id);
        boxes.push(o);
        if o.tag() == Type::Array {
            for x in o.as_vec().clone() {
                collect(x, seen, boxes);
            }
        }
    }
    let mut seen = Vec::new();
    let mut boxes = Vec::new();
    collect(o, &mut seen, &mut boxes);
    for b in boxes {
        b.free();
    }
}

/// Heap ids of the result graph (each distinct box once)
pub fn graph_ids(o: Object) -> Vec<u64> {
    fn collect(o: Object, seen: &mut Vec<u64>) {
        if !o.is_heap_allocated() {
            return;
        }
        let id = nederlang::verif::shadow_id_of(o);
        if seen.contains(&id) {
            return;
        }
        seen.push(id);
        if o.tag() == Type::Array && nederlang::verif::shadow_is_live_obj(o) {
            for x in o.as_vec().clone() {
                collect(x, seen);
            }
        }
    }
    let mut seen = Vec::new();
    collect(o, &mut seen);
    seen
}
