------------------------------- MODULE NlPure -------------------------------
(***************************************************************************)
(* Evaluation is a pure function of the program text (property C16).       *)
(*                                                                         *)
(* The specification has NO variable that survives a call: a call of       *)
(* program p can only finish with the observation Baseline[p] -- what a    *)
(* fresh process, having evaluated nothing else, observes for p.  A        *)
(* history is a sequence of finished calls <<thread, seq, p, obs>> recorded*)
(* in one context:                                                         *)
(*   "order"    one process, random order, repetitions                     *)
(*   "threads"  16 threads of one process, each taking programs in its own *)
(*              seeded order, running concurrently                         *)
(*   "release"  an interpreter built with optimisation and without         *)
(*              overflow checks / debug assertions                         *)
(* Every event must be explained by the action Finish; per thread the      *)
(* sequence numbers must count up (the recorder's own order).              *)
(***************************************************************************)
EXTENDS NlValues, TLC, Json, IOUtils

Recs == ndJsonDeserialize(IOEnv.RECS)

VARIABLES pid, i, nextseq, viol
vars == <<pid, i, nextseq, viol>>

Ev == Recs[pid].events
Baseline == Recs[pid].base

SameObs(a, b) ==
  /\ a.class = b.class
  /\ a.out = b.out
  /\ (a.class = "Err" => a.kind = b.kind)
  /\ (a.class = "Value" => UEq(a.val, b.val))

(* the only way a call can finish *)
Finish(e) == SameObs(e.obs, Baseline[e.p])

Init == /\ pid \in 1..Len(Recs)
        /\ i = 1 /\ nextseq = [t \in {} |-> 0] /\ viol = {}

Step ==
  /\ i <= Len(Ev)
  /\ pid' = pid /\ i' = i + 1
  /\ LET e == Ev[i]
         expected == IF e.t \in DOMAIN nextseq THEN nextseq[e.t] ELSE 1
     IN /\ nextseq' = [t \in (DOMAIN nextseq) \cup {e.t} |-> IF t = e.t THEN e.seq + 1 ELSE nextseq[t]]
        /\ viol' = IF Cardinality(viol) >= 8 THEN viol
                   ELSE viol \cup (IF Finish(e) THEN {} ELSE {[class |-> "impure", at |-> i, p |-> e.p]})
                             \cup (IF e.seq = expected THEN {} ELSE {[class |-> "recorder-order", at |-> i, p |-> e.p]})

Next == Step
Spec == Init /\ [][Next]_vars
Done == i > Len(Ev)

ViolSeq(S) == LET RECURSIVE Ser(_)
                  Ser(T) == IF T = {} THEN <<>>
                            ELSE LET x == CHOOSE y \in T : \A z \in T : y.at <= z.at IN <<x>> \o Ser(T \ {x})
              IN Ser(S)

Report ==
  Done => PrintT(<<"VERDICT", ToJson([id |-> Recs[pid].id, class |-> IF viol = {} THEN "agree" ELSE "mismatch",
                                      rule |-> Recs[pid].ctx, viol |-> ViolSeq(viol), events |-> Len(Ev)])>>)
=============================================================================
