------------------------------ MODULE NlXform ------------------------------
(***************************************************************************)
(* Laws of observational equivalence under program transformations         *)
(* (properties C09 and C10).  A record pairs the observation of a program  *)
(* with the observation of its image under one transformation; no          *)
(* reference interpreter takes part in the verdict.                        *)
(*                                                                         *)
(*   rename     every occurrence of one identifier renamed to a fresh one  *)
(*   shadow     an unused declaration `stel X = 0` of a name declared      *)
(*              elsewhere inserted at the start of an inner block that     *)
(*              does not mention X                                         *)
(*   wrap       the top-level code moved into a function that is called    *)
(*              once (globals become locals)                               *)
(*   lit2var    an integer literal operand replaced by a fresh variable    *)
(*              holding it                                                 *)
(*   mirror     `c op x` written as `x op' c` (and vice versa)             *)
(*   prepend    statements mentioning the same and other literals put in   *)
(*              front (constant-pool entries shift and merge)              *)
(*        law:  Obs(T(p)) = Obs(p)                                         *)
(*                                                                         *)
(*   undeclare  one identifier use replaced by a name declared nowhere     *)
(*        law:  Obs(T(p)) = ReferenceError with nothing printed            *)
(*                                                                         *)
(* An observation is [class, val, kind, out]: class "Value" | "Err" | ...  *)
(* The value of a program whose last statement is not an expression is not *)
(* defined (U1) and is not compared (vdef = FALSE).                        *)
(***************************************************************************)
EXTENDS NlValues

EqualLaws == {"rename", "shadow", "wrap", "lit2var", "mirror", "prepend"}

Terminal(o) == o.class \in {"Value", "Err"}

SameObs(a, b, vdef) ==
  /\ a.class = b.class
  /\ a.out = b.out
  /\ (a.class = "Err" => a.kind = b.kind)
  /\ (a.class = "Value" /\ vdef => UEq(a.val, b.val))

(* "holds" | "broken" | "skip" (a run was cut short by the step budget, or crashed: crashes *)
(* are the business of C05 and are reported there)                                         *)
Law(kind, base, var, vdef) ==
  IF kind \in EqualLaws THEN
       IF base.class = "Budget" \/ var.class = "Budget" THEN "skip"
       ELSE IF ~Terminal(base) \/ ~Terminal(var)
            THEN (IF base.class = var.class THEN "skip" ELSE "broken")
       ELSE IF SameObs(base, var, vdef) THEN "holds" ELSE "broken"
  ELSE IF kind = "yields-ja" THEN
       \* round-trip laws of the builtins (C14), stated as programs that must evaluate to ja
       IF var.class = "Value" /\ var.val.t = "B" /\ var.val.v THEN "holds" ELSE "broken"
  ELSE IF kind = "must-fail" THEN
       \* a computation beyond the machine's limits: any documented error, never a value (U11)
       IF var.class = "Err" THEN "holds" ELSE "broken"
  ELSE \* undeclare
       IF var.class = "Err" /\ var.kind = "Reference" /\ var.out = <<>> THEN "holds" ELSE "broken"
=============================================================================
