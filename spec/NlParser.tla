------------------------------ MODULE NlParser ------------------------------
(***************************************************************************)
(* The grammar as a parser (property C07; acceptance for C05): a           *)
(* functional Pratt parser over the token sequence of NlLexer, producing   *)
(* the nested trees of NlGrammar.                                          *)
(*                                                                         *)
(* It states which token sequences are programs and which tree each one    *)
(* denotes, including the parts of the grammar that exist only as          *)
(* restrictions in the implementation and that no document contradicts:    *)
(*   - the callee of a call is a name or a function literal; the base of   *)
(*     an index is a name, an array literal or a string literal; the       *)
(*     target of an assignment is a name or an index expression; a         *)
(*     function literal can not be the left operand of a binary operator   *)
(*     (these are reported as type errors, everything else as syntax       *)
(*     errors);                                                            *)
(*   - `name op= e` after a NAME only, meaning name = name op (e), with e  *)
(*     extending as far as possible;                                       *)
(*   - prefix `-` takes an operand at the level above + and -, prefix `!`  *)
(*     takes everything that follows;                                      *)
(*   - `;` after a statement and `,` after an argument, element or         *)
(*     parameter are optional.                                             *)
(*                                                                         *)
(* A result is [ok |-> TRUE, t |-> tree, p |-> next position] or           *)
(* [ok |-> FALSE, kind |-> "Syntax" | "Type"].  Positions are 1-based      *)
(* indices into the token sequence; Len + 1 is the end of the input.       *)
(***************************************************************************)
EXTENDS NlGrammar, NlLexer

Fail(kind) == [ok |-> FALSE, kind |-> kind]
Ok(t, p) == [ok |-> TRUE, t |-> t, p |-> p]

K(toks, p) == IF p <= Len(toks) THEN toks[p].k ELSE "EOF"
Txt(toks, p) == toks[p].txt

TokPrec(k) ==
  CASE k = "Assign" -> 1
    [] k \in {"Or", "And"} -> 2
    [] k \in {"Eq", "Neq"} -> 3
    [] k \in {"Lt", "Gt", "Lte", "Gte"} -> 4
    [] k \in {"Plus", "Minus"} -> 5
    [] k \in {"Slash", "Star", "Percent"} -> 6
    [] k = "Dot" -> 7
    [] k = "OpenParen" -> 8
    [] k = "OpenBracket" -> 9
    [] OTHER -> 0

InfixOp(k) ==
  CASE k = "Plus" -> "+" [] k = "Minus" -> "-" [] k = "Star" -> "*" [] k = "Slash" -> "/" [] k = "Percent" -> "%"
    [] k = "Lt" -> "<" [] k = "Lte" -> "<=" [] k = "Gt" -> ">" [] k = "Gte" -> ">=" [] k = "Eq" -> "=="
    [] k = "Neq" -> "!=" [] k = "And" -> "&&" [] k = "Or" -> "||"
InfixKinds == {"Plus", "Minus", "Star", "Slash", "Percent", "Lt", "Lte", "Gt", "Gte", "Eq", "Neq", "And", "Or"}

(* the value of a sequence of decimal digits, as far as it matters for the tree: the digits themselves *)
IntNode(txt) == [k |-> "Int", digits |-> txt]
FloatNode(txt) == [k |-> "Float", digits |-> txt]

RECURSIVE PExpr(_, _, _)
RECURSIVE PLoop(_, _, _)
RECURSIVE PStmt(_, _)
RECURSIVE PStmts(_, _, _, _)
RECURSIVE PBlock(_, _)
RECURSIVE PList(_, _, _, _)
RECURSIVE PParams(_, _, _)

Skip(toks, p, k) == IF K(toks, p) = k THEN p + 1 ELSE p           \* optional token

(* a `{ ... }` block: result t is the sequence of statements *)
PBlock(toks, p) ==
  IF K(toks, p) # "OpenBrace" THEN Fail("Syntax")
  ELSE LET r == PStmts(toks, p + 1, <<>>, TRUE)
       IN IF ~r.ok THEN r
          ELSE IF K(toks, r.p) # "CloseBrace" THEN Fail("Syntax") ELSE Ok(r.t, r.p + 1)

(* statements up to `}` (inBlock) or the end of the input *)
PStmts(toks, p, acc, inBlock) ==
  IF K(toks, p) = "EOF" \/ (inBlock /\ K(toks, p) = "CloseBrace") THEN Ok(acc, p)
  ELSE LET r == PStmt(toks, p)
       IN IF ~r.ok THEN r ELSE PStmts(toks, r.p, Append(acc, r.t), inBlock)

PStmt(toks, p) ==
  LET k == K(toks, p)
      r == CASE k = "Declare" ->
                  IF K(toks, p + 1) # "Identifier" \/ K(toks, p + 2) # "Assign" THEN Fail("Syntax")
                  ELSE LET e == PExpr(toks, p + 3, 0)
                       IN IF ~e.ok THEN e ELSE Ok([k |-> "Let", name |-> Txt(toks, p + 1), e |-> e.t], e.p)
             [] k = "OpenBrace" ->
                  LET b == PBlock(toks, p) IN IF ~b.ok THEN b ELSE Ok([k |-> "Block", body |-> b.t], b.p)
             [] k = "Return" ->
                  LET e == PExpr(toks, p + 1, 0) IN IF ~e.ok THEN e ELSE Ok([k |-> "Return", e |-> e.t], e.p)
             [] k = "Continue" -> Ok([k |-> "Continue"], p + 1)
             [] k = "Break" -> Ok([k |-> "Break"], p + 1)
             [] OTHER ->
                  LET e == PExpr(toks, p, 0) IN IF ~e.ok THEN e ELSE Ok([k |-> "Expr", e |-> e.t], e.p)
  IN IF ~r.ok THEN r ELSE Ok(r.t, Skip(toks, r.p, "Semi"))

(* comma-optional list of expressions up to the closing token; result t is the sequence *)
PList(toks, p, acc, close) ==
  IF K(toks, p) = close THEN Ok(acc, p + 1)
  ELSE LET e == PExpr(toks, p, 0)
       IN IF ~e.ok THEN e ELSE PList(toks, Skip(toks, e.p, "Comma"), Append(acc, e.t), close)

PParams(toks, p, acc) ==
  IF K(toks, p) = "CloseParen" THEN Ok(acc, p + 1)
  ELSE IF K(toks, p) = "Identifier" THEN PParams(toks, Skip(toks, p + 1, "Comma"), Append(acc, Txt(toks, p)))
  ELSE Fail("Syntax")

(* an expression in a context of binding power prec *)
PExpr(toks, p, prec) ==
  LET k == K(toks, p)
      left ==
        CASE k = "Int" -> Ok(IntNode(Txt(toks, p)), p + 1)
          [] k = "Float" -> Ok(FloatNode(Txt(toks, p)), p + 1)
          [] k = "True" -> Ok([k |-> "Bool", v |-> TRUE], p + 1)
          [] k = "False" -> Ok([k |-> "Bool", v |-> FALSE], p + 1)
          [] k = "String" -> Ok([k |-> "Str", cp |-> Decode(Txt(toks, p), 1)], p + 1)
          [] k = "Identifier" -> Ok([k |-> "Ident", name |-> Txt(toks, p)], p + 1)
          [] k = "OpenParen" ->
               LET e == PExpr(toks, p + 1, 0)
               IN IF ~e.ok THEN e ELSE IF K(toks, e.p) # "CloseParen" THEN Fail("Syntax") ELSE Ok(e.t, e.p + 1)
          [] k \in {"Bang", "Minus"} ->
               LET e == PExpr(toks, p + 1, IF k = "Minus" THEN 5 ELSE 0)
               IN IF ~e.ok THEN e ELSE Ok([k |-> "Prefix", op |-> IF k = "Minus" THEN "-" ELSE "!", r |-> e.t], e.p)
          [] k = "If" ->
               LET c == PExpr(toks, p + 1, 0) IN
               IF ~c.ok THEN c
               ELSE LET th == PBlock(toks, c.p) IN
                    IF ~th.ok THEN th
                    ELSE IF K(toks, th.p) # "Else"
                         THEN Ok([k |-> "If", c |-> c.t, th |-> th.t, hasel |-> FALSE, el |-> <<>>], th.p)
                         ELSE IF K(toks, th.p + 1) = "If"
                              THEN LET e == PExpr(toks, th.p + 1, 0)
                                   IN IF ~e.ok THEN e
                                      ELSE Ok([k |-> "If", c |-> c.t, th |-> th.t, hasel |-> TRUE,
                                               el |-> <<[k |-> "Expr", e |-> e.t]>>], e.p)
                              ELSE LET el == PBlock(toks, th.p + 1)
                                   IN IF ~el.ok THEN el
                                      ELSE Ok([k |-> "If", c |-> c.t, th |-> th.t, hasel |-> TRUE, el |-> el.t], el.p)
          [] k = "While" ->
               LET c == PExpr(toks, p + 1, 0) IN
               IF ~c.ok THEN c
               ELSE LET b == PBlock(toks, c.p)
                    IN IF ~b.ok THEN b ELSE Ok([k |-> "While", c |-> c.t, body |-> b.t], b.p)
          [] k = "Func" ->
               LET named == K(toks, p + 1) = "Identifier"
                   q == IF named THEN p + 2 ELSE p + 1
               IN IF K(toks, q) # "OpenParen" THEN Fail("Syntax")
                  ELSE LET ps == PParams(toks, q + 1, <<>>) IN
                       IF ~ps.ok THEN ps
                       ELSE LET b == PBlock(toks, ps.p)
                            IN IF ~b.ok THEN b
                               ELSE Ok([k |-> "Func", name |-> IF named THEN Txt(toks, p + 1) ELSE <<>>,
                                        params |-> ps.t, body |-> b.t], b.p)
          [] k = "OpenBracket" ->
               LET l == PList(toks, p + 1, <<>>, "CloseBracket")
               IN IF ~l.ok THEN l ELSE Ok([k |-> "Array", vals |-> l.t], l.p)
          [] OTHER -> Fail("Syntax")
  IN IF ~left.ok THEN left ELSE PLoop(toks, left, prec)

(* the postfix / infix loop: extend `left` while the next token binds tighter than prec *)
PLoop(toks, left, prec) ==
  LET p == left.p
      k == K(toks, p)
  IN IF k = "Semi" \/ ~(prec < TokPrec(k)) THEN left
     ELSE IF k \in InfixKinds THEN
          IF left.t.k = "Func" THEN Fail("Type")
          ELSE IF K(toks, p + 1) = "Assign" /\ left.t.k = "Ident"
               THEN \* name op= e
                    LET e == PExpr(toks, p + 2, 0)
                    IN IF ~e.ok THEN e
                       ELSE PLoop(toks, Ok([k |-> "Assign", l |-> left.t,
                                            r |-> [k |-> "Infix", op |-> InfixOp(k), l |-> left.t, r |-> e.t]], e.p), prec)
               ELSE LET e == PExpr(toks, p + 1, TokPrec(k))
                    IN IF ~e.ok THEN e
                       ELSE PLoop(toks, Ok([k |-> "Infix", op |-> InfixOp(k), l |-> left.t, r |-> e.t], e.p), prec)
     ELSE IF k = "Assign" THEN
          IF left.t.k \notin {"Ident", "Index"} THEN Fail("Type")
          ELSE LET e == PExpr(toks, p + 1, 1)
               IN IF ~e.ok THEN e ELSE PLoop(toks, Ok([k |-> "Assign", l |-> left.t, r |-> e.t], e.p), prec)
     ELSE IF k = "OpenParen" THEN
          IF left.t.k \notin {"Ident", "Func"} THEN Fail("Type")
          ELSE LET a == PList(toks, p + 1, <<>>, "CloseParen")
               IN IF ~a.ok THEN a ELSE PLoop(toks, Ok([k |-> "Call", f |-> left.t, args |-> a.t], a.p), prec)
     ELSE IF k = "OpenBracket" THEN
          IF left.t.k \notin {"Ident", "Array", "Str"} THEN Fail("Type")
          ELSE LET e == PExpr(toks, p + 1, 0)
               IN IF ~e.ok THEN e
                  ELSE IF K(toks, e.p) # "CloseBracket" THEN Fail("Syntax")
                  ELSE PLoop(toks, Ok([k |-> "Index", l |-> left.t, i |-> e.t], e.p + 1), prec)
     ELSE left            \* `.` binds but nothing handles it: the expression ends here

(* a whole program *)
ParseTokens(toks) ==
  LET r == PStmts(toks, 1, <<>>, FALSE)
  IN IF ~r.ok THEN r
     ELSE IF r.p # Len(toks) + 1 THEN Fail("Syntax")     \* a stray `}` ends nothing
     ELSE r

(* from characters: the lexer first; a text the lexer rejects is not a program *)
ParseChars(chars) ==
  LET l == Lex(chars)
  IN IF l.err = 1 THEN Fail("Syntax") ELSE ParseTokens(l.toks)
=============================================================================
