------------------------------ MODULE TV_Parse ------------------------------
(* C07: the tree the real parser builds for a printed form (under some layout) must be the  *)
(* tree that was printed.  A record: [id, expect, got, ok, layout]; one state per record.   *)
EXTENDS NlGrammar, Json, IOUtils

Recs == ndJsonDeserialize(IOEnv.RECS)
VARIABLE pid
Init == pid \in 1..Len(Recs)
Next == UNCHANGED pid

Report ==
  LET r == Recs[pid]
      good == r.ok /\ TEqSeq(r.expect, r.got)
  IN PrintT(<<"VERDICT", ToJson([id |-> r.id, class |-> IF good THEN "agree" ELSE "mismatch",
                                 rule |-> IF ~r.ok THEN "rejected" ELSE "tree"])>>)
=============================================================================
