---------------------------- MODULE NlFloatArith ----------------------------
(***************************************************************************)
(* The IEEE-754 binary64 RESULT of + - * / % on finite operands, decided   *)
(* exactly: property C06 demands "the IEEE-754 result on floats", and      *)
(* NlFloat alone only fixed the class of a result that a special value     *)
(* decides.  Here a recorded result r is accepted iff it is THE correctly  *)
(* rounded (nearest, ties to even) value of the exact real result, with    *)
(* overflow to infinity, gradual underflow and the sign of an exact zero.  *)
(*                                                                         *)
(* A finite float x = [s, e, h, l] denotes (-1)^s * M(x) * 2^E(x) with     *)
(*   M(x) = hidden * 2^52 + h * 2^26 + l   (hidden = 0 iff e = 0)          *)
(*   E(x) = max(e, 1) - 1075.                                              *)
(* Exact reals are kept as  A * 2^s / Q  with A, Q magnitudes of NlBig     *)
(* (base-10^4 limbs) and s an integer; powers of two are applied by        *)
(* single-limb multiplications so that every intermediate stays < 2^31.    *)
(* Where the exponents are too far apart for that to stay small the answer *)
(* follows from magnitudes alone and no big number is built.               *)
(***************************************************************************)
EXTENDS NlFloat, Sequences
B == INSTANCE NlBig

(* m * c for one small factor c <= 2^17 (a limb times c plus a carry stays below 2^31), in one pass *)
RECURSIVE MulSmallFrom(_, _, _, _)
MulSmallFrom(m, c, i, carry) ==
  IF i > Len(m) THEN (IF carry = 0 THEN <<>> ELSE IF carry < 10000 THEN <<carry>> ELSE <<carry % 10000, carry \div 10000>>)
  ELSE LET v == m[i] * c + carry IN <<v % 10000>> \o MulSmallFrom(m, c, i + 1, v \div 10000)

RECURSIVE Shl(_, _)                     \* m * 2^k, k >= 0
Shl(m, k) == IF m = <<>> THEN <<>>
             ELSE IF k = 0 THEN m
             ELSE IF k < 17 THEN MulSmallFrom(m, 2 ^ k, 1, 0)
             ELSE Shl(MulSmallFrom(m, 131072, 1, 0), k - 17)

One == <<1>>
Mant(x) == LET top == (IF x.e = 0 THEN 0 ELSE 67108864) + x.h
           IN B!AddMag(B!MulMag(B!SmallLimbs(top), B!SmallLimbs(67108864)), B!SmallLimbs(x.l))
Ex(x) == (IF x.e = 0 THEN 1 ELSE x.e) - 1075
Min2(a, b) == IF a < b THEN a ELSE b
Same(r, x) == r.s = x.s /\ r.e = x.e /\ r.h = x.h /\ r.l = x.l
WithSign(x, s) == [s |-> s, e |-> x.e, h |-> x.h, l |-> x.l]
PlusZero(r) == r.s = 0 /\ r.e = 0 /\ r.h = 0 /\ r.l = 0
MantEven(r) == r.l % 2 = 0
TwoTo52 == Shl(One, 52)
AllOnes54 == B!SubMag(Shl(One, 54), One)            \* 2^54 - 1: (2^54 - 1) * 2^970 is where rounding reaches infinity

(***************************************************************************)
(* r is the correctly rounded value of  (neg ? -1 : 1) * A * 2^s / Q,      *)
(* for A >= 1, A < 2^120, 1 <= Q < 2^54.                                   *)
(***************************************************************************)
RoundsTo(neg, A, s, Q, r) ==
  IF IsNaN(r) \/ r.s # (IF neg THEN 1 ELSE 0) THEN FALSE
  ELSE IF IsInf(r) THEN
         IF s >= 1100 THEN TRUE
         ELSE IF s < 840 THEN FALSE
         ELSE LET lo == Min2(s, 970)
              IN B!CmpMag(Shl(A, s - lo), Shl(B!MulMag(Q, AllOnes54), 970 - lo)) >= 0
  ELSE LET Mr == Mant(r)  Er == Ex(r) IN
       IF Mr = <<>> THEN                                  \* a zero: |X| <= 2^-1075 (the tie goes to the even neighbour, 0)
         LET k == s + 1075 IN
         IF k > 60 THEN FALSE
         ELSE IF k < -125 THEN TRUE
         ELSE IF k >= 0 THEN B!CmpMag(Shl(A, k), Q) <= 0
         ELSE B!CmpMag(A, Shl(Q, -k)) <= 0
       ELSE IF s - Er > 120 \/ Er - s > 130 THEN FALSE    \* |X| is far above / far below r
       ELSE LET t  == Min2(s, Er - 2)
                Xs == Shl(A, s - t)
                R  == Shl(B!MulMag(Mr, Q), Er - t)
                HU == Shl(Q, Er - 1 - t)                  \* half the gap to the next float above
                HL == IF Mr = TwoTo52 /\ r.e > 1 THEN Shl(Q, Er - 2 - t) ELSE HU   \* ... below (narrower under a power of two)
                c  == B!CmpMag(Xs, R)
            IN IF c = 0 THEN TRUE
               ELSE IF c > 0 THEN LET cc == B!CmpMag(B!SubMag(Xs, R), HU) IN cc < 0 \/ (cc = 0 /\ MantEven(r))
               ELSE LET cc == B!CmpMag(B!SubMag(R, Xs), HL) IN cc < 0 \/ (cc = 0 /\ MantEven(r))

(* a + b' where b' is b with sign sb; both finite, not both zero *)
SumExact(a, b, sb, r) ==
  LET bb == WithSign(b, sb) IN
  IF IsZero(a) THEN Same(r, bb)
  ELSE IF IsZero(b) THEN Same(r, a)
  ELSE LET ea == Ex(a)  eb == Ex(b) IN
       IF ea - eb > 64 THEN Same(r, a)                   \* the smaller operand is below a quarter of the last place
       ELSE IF eb - ea > 64 THEN Same(r, bb)
       ELSE LET s == Min2(ea, eb)
                X == B!Add(B!Mk(a.s = 1, Shl(Mant(a), ea - s)), B!Mk(sb = 1, Shl(Mant(b), eb - s)))
            IN IF X.mag = <<>> THEN PlusZero(r)          \* x + (-x) = +0 under round-to-nearest
               ELSE RoundsTo(X.neg, X.mag, s, One, r)

(* the remainder of the truncated division is exact: a = n * b + r, |r| < |b|, sign of a *)
ModExact(a, b, q, hasq, r) ==
  IF ~IsFinite(r) \/ r.s # a.s THEN "wrong"
  ELSE IF MagCmp(a, b) < 0 THEN (IF Same(r, a) THEN "ok" ELSE "wrong")
  ELSE IF MagCmp(r, b) >= 0 THEN "wrong"
  ELSE LET ea == Ex(a)  eb == Ex(b)  er == Ex(r)  Mr == Mant(r)  t0 == Min2(ea, eb) IN
       IF ~hasq THEN "skip"
       ELSE IF Mr # <<>> /\ t0 - er > 53 THEN "wrong"     \* r must be a multiple of 2^t0
       ELSE LET t == IF Mr = <<>> THEN t0 ELSE Min2(t0, er) IN
            IF Shl(Mant(a), ea - t) = B!AddMag(B!MulMag(Shl(Mant(b), eb - t), q), Shl(Mr, er - t))
            THEN "ok" ELSE "wrong"

(***************************************************************************)
(* "ok" | "wrong" | "skip" for a recorded float result r of `a op b` with  *)
(* a, b finite and no special value deciding (NlFloat!ArithClass = "any"). *)
(* q: witness for %, the magnitude of trunc(a / b) in limbs (hasq = it was *)
(* recorded; up to 2^2098, 158 limbs); it is only a witness: the equation  *)
(* a = q * b + r with |r| < |b| is what is checked, and it has one solution*)
(***************************************************************************)
Exact(op, a, b, q, hasq, r) ==
  CASE op = "+" -> IF SumExact(a, b, b.s, r) THEN "ok" ELSE "wrong"
    [] op = "-" -> IF SumExact(a, b, 1 - b.s, r) THEN "ok" ELSE "wrong"
    [] op = "*" -> IF RoundsTo(a.s # b.s, B!MulMag(Mant(a), Mant(b)), Ex(a) + Ex(b), One, r) THEN "ok" ELSE "wrong"
    [] op = "/" -> IF RoundsTo(a.s # b.s, Mant(a), Ex(a) - Ex(b), Mant(b), r) THEN "ok" ELSE "wrong"
    [] op = "%" -> ModExact(a, b, q, hasq, r)
=============================================================================
