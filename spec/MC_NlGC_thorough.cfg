CONSTANTS
  Obj = {o1, o2, o3, o4}
  MaxOps = 10
  Dev = {}
INIT Init
NEXT Next
SYMMETRY Sym
INVARIANT TypeOK
INVARIANT Refines
INVARIANT Safe
INVARIANT Once
INVARIANT Precise
INVARIANT Nothing
INVARIANT NothingLater
CHECK_DEADLOCK FALSE
