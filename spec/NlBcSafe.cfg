INIT Init
NEXT Next
INVARIANT Report
INVARIANT OneHeight
CHECK_DEADLOCK FALSE
