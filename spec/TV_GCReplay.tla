---------------------------- MODULE TV_GCReplay ----------------------------
(***************************************************************************)
(* Specification -> implementation conformance of the collector (M2).      *)
(* A record holds one behaviour of NlGC (the operations with the design's  *)
(* live / managed sets after each) and what the REAL collector did when    *)
(* the harness replayed those operations on it (its managed vector as a    *)
(* set, the shadow heap's live set, probe events).  One state per record.  *)
(*                                                                         *)
(* Per operation:                                                          *)
(*   lost     an object the design keeps live is dead            (C03)     *)
(*   twice    a box was released twice / used after release      (C03)     *)
(*   markidx  the mark phase computed an index outside the vector (C03)    *)
(*   leak     an object the design releases when the collector is DROPPED  *)
(*            is still live                                      (C04)     *)
(*   kept-garbage  an object the design releases at a COLLECTION is still  *)
(*            live after it                                      (C04)     *)
(*   leak-early    the same at any other operation               (C04)     *)
(*   unmanaged the collector's managed set differs otherwise               *)
(***************************************************************************)
EXTENDS Integers, Sequences, FiniteSets, TLC, Json, IOUtils

Recs == ndJsonDeserialize(IOEnv.RECS)
VARIABLE pid
Init == pid \in 1..Len(Recs)
Next == UNCHANGED pid

ToSet(s) == {s[i] : i \in 1..Len(s)}

(* objects the design has released and the real collector has not, that were not already in that state after the *)
(* previous operation: the operation at which garbage is first kept decides the class                          *)
Kept(r, i) == IF i = 0 THEN {} ELSE ToSet(r.obs[i].live) \ ToSet(r.ops[i].live)
NewlyKept(r, i) == Kept(r, i) \ Kept(r, i - 1)

Findings ==
  LET r == Recs[pid] IN
  UNION {
    LET e == r.ops[i]  o == r.obs[i]
        elive == ToSet(e.live)  olive == ToSet(o.live)
        eman == ToSet(e.managed)  oman == ToSet(o.managed)
    IN (IF ~(elive \subseteq olive) THEN {[at |-> i, class |-> "lost"]} ELSE {})
       \cup (IF o.double_free > 0 \/ o.dead_deref > 0 THEN {[at |-> i, class |-> "twice"]} ELSE {})
       \cup (IF o.mark_index > 0 THEN {[at |-> i, class |-> "markidx"]} ELSE {})
       \cup (IF (elive \subseteq olive) /\ NewlyKept(r, i) # {}
             THEN {[at |-> i, class |-> IF e.op[1] = "drop" THEN "leak" ELSE IF e.op[1] = "collect" THEN "kept-garbage" ELSE "leak-early"]}
             ELSE {})
       \cup (IF eman # oman /\ ~(eman \subseteq oman /\ (oman \ eman) \subseteq (olive \ elive))
             THEN {[at |-> i, class |-> "unmanaged"]} ELSE {})
    : i \in 1..Len(r.ops)}

Classes == {f.class : f \in Findings}
First(c) == CHOOSE f \in Findings : f.class = c /\ \A g \in Findings : g.class = c => f.at <= g.at

SetToSeq(S) == LET RECURSIVE Ser(_)
                   Ser(T) == IF T = {} THEN <<>> ELSE LET x == CHOOSE y \in T : TRUE IN <<x>> \o Ser(T \ {x})
               IN Ser(S)

Report ==
  PrintT(<<"VERDICT", ToJson([id |-> Recs[pid].id,
                              class |-> IF Findings = {} THEN "agree" ELSE "mismatch",
                              rule |-> IF Findings = {} THEN "conforms" ELSE "gc",
                              classes |-> SetToSeq(Classes),
                              first |-> SetToSeq({First(c) : c \in Classes})])>>)
=============================================================================
