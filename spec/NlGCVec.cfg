CONSTANTS
  Obj = {o1, o2, o3, o4}
  MaxOps = 9
  Dev = {}
INIT InitH
NEXT NextH
INVARIANT PrintVec
CHECK_DEADLOCK FALSE
