-------------------------------- MODULE NlEnc --------------------------------
(***************************************************************************)
(* The tagged-word encoding of values (property C15), parametrised by the  *)
(* word width W so that TLC can check it exhaustively for small W; the     *)
(* typed twin NlEncApa states the same laws for W = 64 and is checked      *)
(* symbolically by Apalache.                                               *)
(*                                                                         *)
(* A word is a natural below 2^W.  Its low 3 bits are the type tag         *)
(*   0 null, 1 int, 2 bool, 3 function, 4 float, 5 string, 6 array         *)
(* and the rest is the payload: an immediate (shifted left by 3) or the    *)
(* 8-aligned address of a heap box.                                        *)
(*   int        v in [-2^(W-4), 2^(W-4) - 1]  ->  (8 v + 1) mod 2^W        *)
(*   bool       ja -> 8 + 2, nee -> 2                                      *)
(*   null       0                                                          *)
(*   function   (entry, locals), entry < 2^IPB, locals < 2^NLB             *)
(*              -> 8 ((entry * 2^NLB) + locals) + 3                        *)
(*   heap box   address (multiple of 8) + tag                              *)
(* Decoding an int is an ARITHMETIC shift right by 3 of the word read as a *)
(* signed number; ordering ints means ordering the words AS SIGNED numbers.*)
(***************************************************************************)
EXTENDS Integers, FiniteSets

CONSTANTS W, IPB, NLB      \* word width; bits of a function's entry offset and locals count

ASSUME W >= 7 /\ IPB + NLB + 3 <= W - 1

RECURSIVE P2(_)
P2(n) == IF n = 0 THEN 1 ELSE 2 * P2(n - 1)

Words == 0..(P2(W) - 1)
Signed(w) == IF w >= P2(W - 1) THEN w - P2(W) ELSE w
Tag(w) == w % 8

IntRange == (-P2(W - 4))..(P2(W - 4) - 1)

EncInt(v) == (8 * v + 1) % P2(W)
(* arithmetic shift right by 3 = floor division of the signed word by 8 *)
FloorDiv8(x) == IF x >= 0 THEN x \div 8 ELSE -((-x + 7) \div 8)
DecInt(w) == FloorDiv8(Signed(w))

EncBool(b) == IF b THEN 10 ELSE 2
DecBool(w) == (w \div 8) % 256 # 0         \* the implementation looks at the low byte shifted right by 3

EncNull == 0

EncFn(ip, nl) == 8 * (ip * P2(NLB) + nl) + 3
DecFn(w) == LET v == FloorDiv8(Signed(w)) IN <<(v \div P2(NLB)) % P2(IPB), v % P2(NLB)>>

Addrs == {a \in Words : a % 8 = 0 /\ a > 0}
EncPtr(a, tag) == a + tag
DecPtr(w) == w - (w % 8)
IsHeap(w) == Tag(w) >= 4

(* every value that can be created, as (kind, payload) *)
Scalars == {<<"int", v>> : v \in IntRange} \cup {<<"bool", b>> : b \in BOOLEAN} \cup {<<"null", 0>>}
           \cup {<<"fn", <<ip, nl>> >> : ip \in 0..(P2(IPB) - 1), nl \in 0..(P2(NLB) - 1)}
Enc(x) == CASE x[1] = "int" -> EncInt(x[2]) [] x[1] = "bool" -> EncBool(x[2])
            [] x[1] = "null" -> EncNull [] x[1] = "fn" -> EncFn(x[2][1], x[2][2])
TagOf(kind) == CASE kind = "null" -> 0 [] kind = "int" -> 1 [] kind = "bool" -> 2 [] kind = "fn" -> 3

(* ------------------------------- the laws ------------------------------- *)
RoundTrip ==
  /\ \A v \in IntRange : EncInt(v) \in Words /\ DecInt(EncInt(v)) = v
  /\ \A b \in BOOLEAN : DecBool(EncBool(b)) = b
  /\ \A ip \in 0..(P2(IPB) - 1), nl \in 0..(P2(NLB) - 1) :
        EncFn(ip, nl) \in Words /\ DecFn(EncFn(ip, nl)) = <<ip, nl>>
  /\ \A a \in Addrs, t \in 4..6 : DecPtr(EncPtr(a, t)) = a

TagsRight ==
  /\ \A x \in Scalars : Tag(Enc(x)) = TagOf(x[1]) /\ ~IsHeap(Enc(x))
  /\ \A a \in Addrs, t \in 4..6 : Tag(EncPtr(a, t)) = t /\ IsHeap(EncPtr(a, t))

Injective == \A x \in Scalars, y \in Scalars : x # y => Enc(x) # Enc(y)

(* comparing ints is comparing their words as signed numbers (the repaired ordering) ...  *)
OrderSigned == \A a \in IntRange, b \in IntRange : (Signed(EncInt(a)) < Signed(EncInt(b))) <=> (a < b)
(* ... and NOT comparing them as unsigned numbers (the ordering the tree had before the fix) *)
OrderUnsignedIsWrong == \E a \in IntRange, b \in IntRange : ~((EncInt(a) < EncInt(b)) <=> (a < b))

ASSUME RoundTrip
ASSUME TagsRight
ASSUME Injective
ASSUME OrderSigned
ASSUME OrderUnsignedIsWrong
=============================================================================
