----------------------------- MODULE NlCompiler -----------------------------
(***************************************************************************)
(* The code generator, as src/compiler.rs and src/symbols.rs implement it: *)
(* a function from a syntax tree to stack-machine code and a constant      *)
(* pool.  It closes the pipeline of specifications                         *)
(*                                                                         *)
(*     text --NlLexer--> tokens --NlParser--> tree --NlCompiler--> code    *)
(*                                              |                    |     *)
(*                                            NlSem                 NlVM   *)
(*                                                                         *)
(* and is used in two ways:                                                *)
(*  (M1) design level, no implementation involved: for every tree of the   *)
(*       enumerated families, NlVM run on Compile(tree) yields what NlSem  *)
(*       says the tree means (MC_Compile pipeline, see DESIGN.md);         *)
(*  (M3) conformance: the code the real compiler emitted for a tree is     *)
(*       Compile(tree), instruction by instruction and constant by         *)
(*       constant (TV_Compile).  A difference is model drift (evidence),   *)
(*       not a property violation: different code may mean the same.       *)
(*                                                                         *)
(* Input: the flattened tree of NlStatic / NlSem (nodes, root).            *)
(* Output: [code, consts, err]; code is a sequence of                      *)
(*   [n |-> opcode name, a |-> first operand, b |-> second operand,        *)
(*    at |-> byte offset]                                                  *)
(* with jump operands as byte offsets; err = "" or the kind of the         *)
(* compile-time error (then code is <<>>).                                 *)
(*                                                                         *)
(* The compiler is a single pass with back-patching; its state is          *)
(*   code, len (bytes), consts, ctxs (symbol table: one context per open   *)
(*   function, each a sequence of block scopes and the high-water mark of  *)
(*   slots), loops (open loops of the current function body: start offset  *)
(*   and the indices of the `stop` jumps to patch), last (the last opcode  *)
(*   emitted, "" after one was taken back).                                *)
(***************************************************************************)
EXTENDS Integers, Sequences, FiniteSets, TLC, IOUtils

(* Deliberate deviations of the translation scheme, selected through the environment.  They are   *)
(* never part of a verdict about the implementation: the refinement check (MC_Refine) must REJECT *)
(* each of them on the enumerated trees, which shows that it is not vacuous.                      *)
(*   fused-any-order      the fused `local op constant` instruction also for `constant op local`  *)
(*                        with a non-commutative operator (a defect the pinned tree had)           *)
(*   no-null              a branch / body that does not end in an expression leaves nothing        *)
(*   continue-outermost   `volgende` jumps to the condition of the outermost open loop             *)
(*   let-late             the name of a `stel` is declared after its initialiser is compiled       *)
Dev == IF "DEVIATION" \in DOMAIN IOEnv THEN IOEnv.DEVIATION ELSE ""

BuiltinOrder ==                          \* the numbering of the builtins (src/builtins.rs)
  << <<112,114,105,110,116>>,          \* print
     <<116,121,112,101>>,              \* type
     <<98,111,111,108>>,               \* bool
     <<102,108,111,97,116>>,           \* float
     <<105,110,116>>,                  \* int
     <<115,116,114,105,110,103>>,      \* string
     <<108,101,110,103,116,101>> >>    \* lengte
BuiltinNo(name) == IF \E i \in 1..Len(BuiltinOrder) : BuiltinOrder[i] = name
                   THEN (CHOOSE i \in 1..Len(BuiltinOrder) : BuiltinOrder[i] = name) - 1 ELSE -1

FusedOf == [op \in {"+", "-", "*", "/", "%", "<", "<=", ">", ">=", "==", "!="} |->
  CASE op = "+" -> "AddLocalConst" [] op = "-" -> "SubtractLocalConst" [] op = "*" -> "MultiplyLocalConst"
    [] op = "/" -> "DivideLocalConst" [] op = "%" -> "ModuloLocalConst" [] op = "<" -> "LtLocalConst"
    [] op = "<=" -> "LteLocalConst" [] op = ">" -> "GtLocalConst" [] op = ">=" -> "GteLocalConst"
    [] op = "==" -> "EqLocalConst" [] op = "!=" -> "NeqLocalConst"]
PlainOf(op) ==
  CASE op = "+" -> "Add" [] op = "-" -> "Subtract" [] op = "*" -> "Multiply" [] op = "/" -> "Divide"
    [] op = "%" -> "Modulo" [] op = "<" -> "Lt" [] op = "<=" -> "Lte" [] op = ">" -> "Gt" [] op = ">=" -> "Gte"
    [] op = "==" -> "Eq" [] op = "!=" -> "Neq" [] op = "&&" -> "And" [] op = "||" -> "Or"
Commutative == {"+", "*", "==", "!="}

(* encoded size of an instruction *)
SizeOf(n) ==
  IF n \in {"Const", "Jump", "JumpIfFalse", "GetLocal", "SetLocal", "GetGlobal", "SetGlobal", "Array", "CallBuiltin"} THEN 3
  ELSE IF n = "Call" THEN 2
  ELSE IF n \in {FusedOf[o] : o \in DOMAIN FusedOf} THEN 5
  ELSE 1

Placeholder == 0 - 1

(* ------------------------------ state ----------------------------------- *)
Ok(st) == st.err = ""
Fail(st, kind) == IF Ok(st) THEN [st EXCEPT !.err = kind] ELSE st

Emit(st, n, a, b) ==
  IF ~Ok(st) THEN st
  ELSE [st EXCEPT !.code = Append(@, [n |-> n, a |-> a, b |-> b, at |-> st.len]),
                  !.len = @ + SizeOf(n), !.last = n]
Emit0(st, n) == Emit(st, n, 0, 0)
Emit1(st, n, a) == Emit(st, n, a, 0)

(* take back the last instruction (only ever a Pop) *)
Unemit(st) == [st EXCEPT !.code = SubSeq(@, 1, Len(@) - 1), !.len = @ - 1, !.last = ""]
Patch(st, i, target) == [st EXCEPT !.code[i].a = target]

(* TLC evaluates operator arguments lazily; Then() forces the intermediate state *)
Then(s, F(_)) == IF DOMAIN s = {} THEN s ELSE F(s)

(* ------------------------------ constants ------------------------------- *)
(* a float m/2^e in lowest terms *)
RECURSIVE FNorm(_, _)
FNorm(m, e) == IF e > 0 /\ m % 2 = 0 THEN FNorm(m \div 2, e - 1) ELSE [m |-> m, e |-> e]

IntConst(nd) == IF "v" \in DOMAIN nd THEN [t |-> "I", v |-> nd.v] ELSE [t |-> "I", big |-> nd.big]
FloatConst(nd) == IF "m" \in DOMAIN nd THEN LET f == FNorm(nd.m, nd.e) IN [t |-> "F", m |-> f.m, e |-> f.e]
                  ELSE [t |-> "F", big |-> nd.big]

(* the pool re-uses an equal constant of the same type (floats: numerically equal) *)
AddConst(st, c) ==
  IF \E i \in 1..Len(st.consts) : st.consts[i] = c
  THEN [st |-> st, idx |-> (CHOOSE i \in 1..Len(st.consts) : st.consts[i] = c /\ \A j \in 1..(i - 1) : st.consts[j] # c) - 1]
  ELSE [st |-> [st EXCEPT !.consts = Append(@, c)], idx |-> Len(st.consts)]

(* ------------------------------ symbols --------------------------------- *)
RECURSIVE SumLen(_, _)
SumLen(scopes, k) == IF k = 0 THEN 0 ELSE Len(scopes[k]) + SumLen(scopes, k - 1)
TotalLen(ctx) == SumLen(ctx.scopes, Len(ctx.scopes))

RECURSIVE RPos(_, _, _)
RPos(scope, name, i) == IF i = 0 THEN 0 ELSE IF scope[i] = name THEN i ELSE RPos(scope, name, i - 1)

(* innermost scope first; inside a scope the latest declaration; index = slots before the scope + position *)
RECURSIVE FindCtx(_, _, _)
FindCtx(ctx, name, si) ==
  IF si = 0 THEN [found |-> FALSE]
  ELSE LET j == RPos(ctx.scopes[si], name, Len(ctx.scopes[si]))
       IN IF j > 0 THEN [found |-> TRUE, index |-> SumLen(ctx.scopes, si - 1) + j - 1]
          ELSE FindCtx(ctx, name, si - 1)

Resolve(st, name) ==
  LET nc == Len(st.ctxs)
      own == FindCtx(st.ctxs[nc], name, Len(st.ctxs[nc].scopes))
  IN IF own.found THEN [found |-> TRUE, scope |-> IF nc = 1 THEN "G" ELSE "L", index |-> own.index]
     ELSE IF nc > 1
          THEN LET g == FindCtx(st.ctxs[1], name, Len(st.ctxs[1].scopes))
               IN IF g.found THEN [found |-> TRUE, scope |-> "G", index |-> g.index] ELSE [found |-> FALSE]
          ELSE [found |-> FALSE]

Define(st, name) ==
  LET nc == Len(st.ctxs)
      ns == Len(st.ctxs[nc].scopes)
      s1 == [st EXCEPT !.ctxs[nc].scopes[ns] = Append(@, name), !.ctxs[nc].max = @ + 1]
  IN [st |-> s1, scope |-> IF nc = 1 THEN "G" ELSE "L", index |-> TotalLen(s1.ctxs[nc]) - 1]

EnterScope(st) == LET nc == Len(st.ctxs) IN [st EXCEPT !.ctxs[nc].scopes = Append(@, <<>>)]
LeaveScope(st) == LET nc == Len(st.ctxs) IN [st EXCEPT !.ctxs[nc].scopes = SubSeq(@, 1, Len(@) - 1)]

SetOp(scope) == IF scope = "G" THEN "SetGlobal" ELSE "SetLocal"
GetOp(scope) == IF scope = "G" THEN "GetGlobal" ELSE "GetLocal"

(* ------------------------------ the translation ------------------------- *)
RECURSIVE CE(_, _, _)
RECURSIVE CS(_, _, _)
RECURSIVE CList(_, _, _, _, _)
RECURSIVE CBlock(_, _, _)
RECURSIVE DefParams(_, _, _)
RECURSIVE PatchAll(_, _, _, _)

CList(nodes, ids, i, st, stmt) ==
  IF i > Len(ids) \/ ~Ok(st) THEN st
  ELSE Then(IF stmt THEN CS(nodes, ids[i], st) ELSE CE(nodes, ids[i], st),
            LAMBDA s2 : CList(nodes, ids, i + 1, s2, stmt))

(* a block: an empty one pushes null; otherwise its statements in a scope of their own *)
CBlock(nodes, ids, st) ==
  IF ~Ok(st) THEN st
  ELSE IF ids = <<>> THEN Emit0(st, "Null")
  ELSE Then(CList(nodes, ids, 1, EnterScope(st), TRUE), LAMBDA s2 : IF Ok(s2) THEN LeaveScope(s2) ELSE s2)

(* the value of a block used as a value: keep what its last statement computed, or null *)
KeepValue(st, ids) ==
  IF ~Ok(st) THEN st
  ELSE IF st.last = "Pop" THEN Unemit(st)
  ELSE IF ids # <<>> /\ Dev # "no-null" THEN Emit0(st, "Null")
  ELSE st

DefParams(st, params, k) ==
  IF k > Len(params) THEN st ELSE Then(Define(st, params[k]).st, LAMBDA s2 : DefParams(s2, params, k + 1))

PatchAll(st, idxs, k, target) ==
  IF k > Len(idxs) THEN st ELSE PatchAll(Patch(st, idxs[k], target), idxs, k + 1, target)

(* `name op constant` with a local name: one fused instruction *)
TryFused(st, name, nd, op) ==
  LET ac == AddConst(st, IntConst(nd))           \* the constant is pooled before the name is looked at
      r == Resolve(ac.st, name)
  IN IF op \in DOMAIN FusedOf /\ r.found /\ r.scope = "L"
     THEN [fused |-> TRUE, st |-> Emit(ac.st, FusedOf[op], r.index, ac.idx)]
     ELSE [fused |-> FALSE, st |-> ac.st]

CE(nodes, n, st) ==
  IF ~Ok(st) THEN st ELSE
  LET nd == nodes[n] IN
  CASE nd.k = "Bool" -> Emit0(st, IF nd.v THEN "True" ELSE "False")
    [] nd.k = "Int" -> LET ac == AddConst(st, IntConst(nd)) IN Emit1(ac.st, "Const", ac.idx)
    [] nd.k = "Float" -> LET ac == AddConst(st, FloatConst(nd)) IN Emit1(ac.st, "Const", ac.idx)
    [] nd.k = "Str" -> LET ac == AddConst(st, [t |-> "S", cp |-> nd.cp]) IN Emit1(ac.st, "Const", ac.idx)
    [] nd.k = "Ident" ->
         LET r == Resolve(st, nd.name)
         IN IF r.found THEN Emit1(st, GetOp(r.scope), r.index) ELSE Fail(st, "Reference")
    [] nd.k = "Prefix" ->
         Then(CE(nodes, nd.r, st), LAMBDA s1 : Emit0(s1, IF nd.op = "!" THEN "Not" ELSE "Negate"))
    [] nd.k = "Assign" ->
         LET l == nodes[nd.l] IN
         CASE l.k = "Ident" ->
                LET r == Resolve(st, l.name)
                IN IF ~r.found THEN Fail(st, "Reference")
                   ELSE Then(CE(nodes, nd.r, st), LAMBDA s1 :
                          Emit1(Emit1(s1, SetOp(r.scope), r.index), GetOp(r.scope), r.index))
           [] l.k = "Index" ->
                Then(CE(nodes, l.l, st), LAMBDA s1 :
                  Then(CE(nodes, l.i, s1), LAMBDA s2 :
                    Then(CE(nodes, nd.r, s2), LAMBDA s3 : Emit0(s3, "IndexSet"))))
           [] OTHER -> Fail(st, "Type")
    [] nd.k = "Infix" ->
         LET l == nodes[nd.l]
             r == nodes[nd.r]
             try == IF l.k = "Ident" /\ r.k = "Int" THEN TryFused(st, l.name, r, nd.op)
                    ELSE IF l.k = "Int" /\ r.k = "Ident" /\ (nd.op \in Commutative \/ Dev = "fused-any-order") THEN TryFused(st, r.name, l, nd.op)
                    ELSE [fused |-> FALSE, st |-> st]
         IN IF try.fused THEN try.st
            ELSE Then(CE(nodes, nd.l, try.st), LAMBDA s1 :
                   Then(CE(nodes, nd.r, s1), LAMBDA s2 : Emit0(s2, PlainOf(nd.op))))
    [] nd.k = "If" ->
         Then(CE(nodes, nd.c, st), LAMBDA s1 :
           LET jif == Len(s1.code) + 1
               s2 == Emit1(s1, "JumpIfFalse", Placeholder)
           IN Then(CBlock(nodes, nd.th, s2), LAMBDA s3 :
                LET s4 == KeepValue(s3, nd.th)
                    jmp == Len(s4.code) + 1
                    s5 == Emit1(s4, "Jump", Placeholder)
                    s6 == IF Ok(s5) THEN Patch(s5, jif, s5.len) ELSE s5
                IN IF nd.hasel
                   THEN Then(CBlock(nodes, nd.el, s6), LAMBDA s7 :
                          LET s8 == KeepValue(s7, nd.el)
                          IN IF Ok(s8) THEN Patch(s8, jmp, s8.len) ELSE s8)
                   ELSE LET s8 == Emit0(s6, "Null") IN IF Ok(s8) THEN Patch(s8, jmp, s8.len) ELSE s8))
    [] nd.k = "While" ->
         LET s0 == Emit0(st, "Null")
             start == s0.len
             s1 == [s0 EXCEPT !.loops = Append(@, [start |-> start, breaks |-> <<>>])]
         IN Then(CE(nodes, nd.c, s1), LAMBDA s2 :
              LET jif == Len(s2.code) + 1
                  s3 == Emit0(Emit1(s2, "JumpIfFalse", Placeholder), "Pop")
              IN Then(CBlock(nodes, nd.body, s3), LAMBDA s4 :
                   LET s5 == Emit1(KeepValue(s4, nd.body), "Jump", start)
                   IN IF ~Ok(s5) THEN s5
                      ELSE LET s6 == Patch(s5, jif, s5.len)
                               ctx == s6.loops[Len(s6.loops)]
                               s7 == PatchAll(s6, ctx.breaks, 1, s6.len)
                           IN [s7 EXCEPT !.loops = SubSeq(@, 1, Len(@) - 1)]))
    [] nd.k = "Func" ->
         LET named == nd.name # <<>>
             d == IF named THEN Define(st, nd.name) ELSE [st |-> st, scope |-> "G", index |-> 0]
             jmp == Len(d.st.code) + 1
             s1 == Emit1(d.st, "Jump", Placeholder)
             s2 == [s1 EXCEPT !.ctxs = Append(@, [scopes |-> << <<>> >>, max |-> 0])]
         IN Then(DefParams(s2, nd.params, 1), LAMBDA s3 :
              LET entry == s3.len
                  outer == s3.loops
                  s4 == [s3 EXCEPT !.loops = <<>>]        \* a loop around the definition is not a loop of the body
              IN Then(CBlock(nodes, nd.body, s4), LAMBDA s5 :
                   IF ~Ok(s5) THEN s5
                   ELSE LET s6 == [s5 EXCEPT !.loops = outer]
                            s7 == IF s6.last = "Pop" THEN Emit0(Unemit(s6), "ReturnValue")
                                  ELSE IF s6.last # "ReturnValue" THEN Emit0(s6, "Return")
                                  ELSE s6
                            s8 == Patch(s7, jmp, s7.len)
                            nl == s8.ctxs[Len(s8.ctxs)].max
                            s9 == [s8 EXCEPT !.ctxs = SubSeq(@, 1, Len(@) - 1)]
                            ac == AddConst(s9, [t |-> "Fn", ip |-> entry, nl |-> nl])
                            s10 == Emit1(ac.st, "Const", ac.idx)
                        IN IF named THEN Emit1(Emit1(s10, SetOp(d.scope), d.index), "Const", ac.idx) ELSE s10))
    [] nd.k = "Call" ->
         LET f == nodes[nd.f]
         IN Then(CList(nodes, nd.args, 1, st, FALSE), LAMBDA s1 :
              IF f.k = "Ident" /\ BuiltinNo(f.name) >= 0
              THEN Emit(s1, "CallBuiltin", BuiltinNo(f.name), Len(nd.args))
              ELSE Then(CE(nodes, nd.f, s1), LAMBDA s2 : Emit1(s2, "Call", Len(nd.args))))
    [] nd.k = "Array" ->
         Then(CList(nodes, nd.vals, 1, st, FALSE), LAMBDA s1 : Emit1(s1, "Array", Len(nd.vals)))
    [] nd.k = "Index" ->
         Then(CE(nodes, nd.l, st), LAMBDA s1 :
           Then(CE(nodes, nd.i, s1), LAMBDA s2 : Emit0(s2, "IndexGet")))

CS(nodes, n, st) ==
  IF ~Ok(st) THEN st ELSE
  LET nd == nodes[n] IN
  CASE nd.k = "Expr" -> Then(CE(nodes, nd.e, st), LAMBDA s1 : Emit0(s1, "Pop"))
    [] nd.k = "Block" ->
         Then(CBlock(nodes, nd.body, st), LAMBDA s1 : IF nd.body = <<>> THEN Emit0(s1, "Pop") ELSE s1)
    [] nd.k = "Let" ->
         IF Dev = "let-late"
         THEN Then(CE(nodes, nd.e, st), LAMBDA s1 :
                IF Ok(s1) THEN LET d == Define(s1, nd.name) IN Emit1(d.st, SetOp(d.scope), d.index) ELSE s1)
         ELSE
         LET d == Define(st, nd.name)             \* the name exists from its own initialiser on
         IN Then(CE(nodes, nd.e, d.st), LAMBDA s1 : Emit1(s1, SetOp(d.scope), d.index))
    [] nd.k = "Return" ->
         IF Len(st.ctxs) = 1 THEN Fail(st, "Syntax")
         ELSE Then(CE(nodes, nd.e, st), LAMBDA s1 : Emit0(s1, "ReturnValue"))
    [] nd.k = "Break" ->
         LET s1 == Emit0(st, "Null")
             pos == Len(s1.code) + 1
             s2 == Emit1(s1, "Jump", Placeholder)
         IN IF s2.loops = <<>> THEN Fail(s2, "Syntax")
            ELSE [s2 EXCEPT !.loops[Len(s2.loops)].breaks = Append(@, pos)]
    [] nd.k = "Continue" ->
         LET s1 == Emit0(st, "Null")
         IN IF s1.loops = <<>> THEN Fail(s1, "Syntax")
            ELSE Emit1(s1, "Jump", s1.loops[IF Dev = "continue-outermost" THEN 1 ELSE Len(s1.loops)].start)

EmptyState == [code |-> <<>>, len |-> 0, consts |-> <<>>, ctxs |-> << [scopes |-> << <<>> >>, max |-> 0] >>,
               loops |-> <<>>, last |-> "", err |-> ""]

(* a program compiled by a fresh compiler *)
CompileFrom(nodes, root, st0) ==
  LET st == CList(nodes, root, 1, st0, TRUE)
  IN IF Ok(st) THEN LET fin == Emit0(st, "Halt") IN [code |-> fin.code, consts |-> fin.consts, err |-> "", st |-> fin]
     ELSE [code |-> <<>>, consts |-> st0.consts, err |-> st.err, st |-> st0]
Compile(nodes, root) == CompileFrom(nodes, root, EmptyState)

(* ------------------------------ design-level facts ---------------------- *)
(* every jump of compiled code is patched and lands on an instruction boundary inside the code *)
Boundaries(code) == {code[i].at : i \in 1..Len(code)}
JumpsResolved(code) ==
  \A i \in 1..Len(code) : code[i].n \in {"Jump", "JumpIfFalse"} => code[i].a \in Boundaries(code)
=============================================================================
