------------------------------ MODULE NlFrames ------------------------------
(***************************************************************************)
(* The frame and loop discipline of the stack machine, as a trace          *)
(* specification over the dispatch events recorded from the real VM        *)
(* (properties C12 and C11; also the dynamic side of C02).                 *)
(*                                                                         *)
(* An event is <<ip, opcode byte, sp, bp, frames>>: the state of the real  *)
(* machine immediately before it dispatches the instruction at ip.  The    *)
(* specification keeps its own frame stack and checks, event by event:     *)
(*                                                                         *)
(*  Call n      the callee starts at a function entry e found among the    *)
(*              constants; its base is  sp - 1 - n  (the arguments become  *)
(*              the first locals), its stack is padded to  base + locals(e)*)
(*              and one frame is added;                                    *)
(*  Return*     control resumes right after the call instruction, with the *)
(*              caller's base pointer, one frame less, and the stack cut   *)
(*              back to the callee's base plus exactly one result;         *)
(*  otherwise   the frame count and base pointer do not change, and ip     *)
(*              moves to the next instruction or to the jump target;       *)
(*  LoopResidue every time control passes a backward jump (a loop's        *)
(*              back edge) in the same activation, the stack has the       *)
(*              height it had the first time: iterating leaves nothing     *)
(*              behind.                                                    *)
(*                                                                         *)
(* In "backedge" mode the recorder kept only Jump events (long loops):     *)
(* only LoopResidue is checked.                                            *)
(***************************************************************************)
EXTENDS Integers, Sequences, FiniteSets, TLC, Json, IOUtils

Recs  == ndJsonDeserialize(IOEnv.RECS)
OpTab == ndJsonDeserialize(IOEnv.OPTAB)[1]

VARIABLES pid, i, fs, heads, viol

vars == <<pid, i, fs, heads, viol>>

Ev     == Recs[pid].steps
Code   == Recs[pid].bc.code
Consts == Recs[pid].bc.consts
Mode   == IF "mode" \in DOMAIN Recs[pid] THEN Recs[pid].mode ELSE "full"
At(k)  == Code[k + 1]
U16(k) == At(k) + 256 * At(k + 1)

Ops == {OpTab.ops[k] : k \in 1..Len(OpTab.ops)}
NameOf(b) == IF \E o \in Ops : o.byte = b THEN (CHOOSE o \in Ops : o.byte = b).name ELSE "?"
RECURSIVE SumSeq(_, _)
SumSeq(s, k) == IF k > Len(s) THEN 0 ELSE s[k] + SumSeq(s, k + 1)
SizeOf(b) == 1 + SumSeq((CHOOSE o \in Ops : o.byte = b).widths, 1)

FnEntries == {Consts[k].ip : k \in {j \in 1..Len(Consts) : Consts[j].t = "Fn"}}
LocalsOf(e) == (CHOOSE k \in 1..Len(Consts) : Consts[k].t = "Fn" /\ Consts[k].ip = e)

V(class, k) == [class |-> class, at |-> k]
MaxViol == 8

Init ==
  /\ pid \in 1..Len(Recs)
  /\ i = 1 /\ fs = <<>> /\ heads = {} /\ viol = {}

(* checks on the pair of consecutive events (a = Ev[i], b = Ev[i+1]) *)
PairViol(a, b) ==
  LET n == NameOf(a[2])  ip == a[1]  sp == a[3]  bp == a[4]  fr == a[5] IN
  IF n = "Call" THEN
       LET argc == At(ip + 1) IN
       (IF b[5] # fr + 1 THEN {V("call-frame-count", i)} ELSE {})
       \cup (IF b[1] \notin FnEntries THEN {V("call-entry", i)} ELSE {})
       \cup (IF b[4] # sp - 1 - argc THEN {V("call-base", i)} ELSE {})
       \cup (IF b[1] \in FnEntries /\ b[3] # b[4] + Consts[LocalsOf(b[1])].nl
             THEN {V("call-locals", i)} ELSE {})
  ELSE IF n \in {"Return", "ReturnValue"} THEN
       IF fs = <<>> THEN {V("return-without-call", i)}
       ELSE LET top == fs[Len(fs)] IN
            (IF b[5] # fr - 1 THEN {V("return-frame-count", i)} ELSE {})
            \cup (IF b[1] # top.ret THEN {V("return-address", i)} ELSE {})
            \cup (IF b[4] # top.bp THEN {V("return-base", i)} ELSE {})
            \cup (IF b[3] # bp + 1 THEN {V("return-stack", i)} ELSE {})
  ELSE (IF b[5] # fr THEN {V("frame-count", i)} ELSE {})
       \cup (IF b[4] # bp THEN {V("base-pointer", i)} ELSE {})
       \cup (IF n \in {"Jump"} /\ b[1] # U16(ip + 1) THEN {V("jump-target", i)} ELSE {})
       \cup (IF n = "JumpIfFalse" /\ b[1] \notin {U16(ip + 1), ip + 3} THEN {V("jump-target", i)} ELSE {})
       \cup (IF n \notin {"Jump", "JumpIfFalse", "?"} /\ b[1] # ip + SizeOf(a[2])
             THEN {V("sequential-ip", i)} ELSE {})

(* a backward jump seen again in the same activation must find the same height *)
IsBackEdge(a) == NameOf(a[2]) = "Jump" /\ U16(a[1] + 1) <= a[1]
HeadKey(a) == <<a[1], a[5], a[4]>>
ResidueViol(a) ==
  IF IsBackEdge(a) /\ \E h \in heads : h[1] = HeadKey(a) /\ h[2] # a[3]
  THEN {V("loop-residue", i)} ELSE {}

Step ==
  /\ i <= Len(Ev)
  /\ pid' = pid
  /\ i' = i + 1
  /\ LET a == Ev[i]
         last == i = Len(Ev)
         n == NameOf(a[2])
     IN /\ heads' = IF IsBackEdge(a) /\ ~(\E h \in heads : h[1] = HeadKey(a))
                    THEN heads \cup {<<HeadKey(a), a[3]>>} ELSE heads
        \* (a run that is wrong at every step is reported by its first few violations)
        /\ viol' = IF Cardinality(viol) >= MaxViol THEN viol
                   ELSE viol \cup ResidueViol(a)
                             \cup (IF Mode = "full" /\ ~last THEN PairViol(a, Ev[i + 1]) ELSE {})
        /\ fs' = IF Mode # "full" THEN fs
                 ELSE IF n = "Call" THEN Append(fs, [ret |-> a[1] + 2, bp |-> a[4]])
                 ELSE IF n \in {"Return", "ReturnValue"} /\ fs # <<>> THEN SubSeq(fs, 1, Len(fs) - 1)
                 ELSE fs

Next == Step
Spec == Init /\ [][Next]_vars

Done == i > Len(Ev)

ViolSeq(S) == LET RECURSIVE Ser(_)
                  Ser(T) == IF T = {} THEN <<>>
                            ELSE LET x == CHOOSE y \in T : \A z \in T : y.at <= z.at
                                 IN <<x>> \o Ser(T \ {x})
              IN Ser(S)

Report ==
  Done => PrintT(<<"VERDICT", ToJson([id |-> Recs[pid].id,
                                      class |-> IF viol = {} THEN "agree" ELSE "mismatch",
                                      rule |-> IF viol = {} THEN "discipline"
                                               ELSE (CHOOSE v \in viol : \A z \in viol : v.at <= z.at).class,
                                      viol |-> ViolSeq(viol), events |-> Len(Ev)])>>)

(* the model's frame stack mirrors the machine's frame count *)
FrameStackMirrors ==
  (Mode = "full" /\ i <= Len(Ev) /\ viol = {}) => Len(fs) + 1 = Ev[i][5]
=============================================================================
