INIT Init
NEXT Next
INVARIANT RoundTrip
CHECK_DEADLOCK FALSE
