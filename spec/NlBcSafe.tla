----------------------------- MODULE NlBcSafe -----------------------------
(***************************************************************************)
(* The unchecked contracts of the stack machine, as a verifier of the real *)
(* compiler's output (property C02; residue of C11).                       *)
(*                                                                         *)
(* vm.rs fetches instructions and operands without bounds checks, pops     *)
(* without an emptiness check and turns bytes into opcodes and builtin     *)
(* numbers by transmute -- all "safe if the compiler did its job".  This   *)
(* module states what that job is, and checks it on ALL paths of each      *)
(* compiled program by abstract interpretation over (region, ip, height):  *)
(*                                                                         *)
(*   - the code decodes, front to back, into defined opcodes with complete *)
(*     operands (the instruction boundaries);                              *)
(*   - a region is the main code or one function body (from the entry      *)
(*     stored in a function constant to the target of the Jump that skips  *)
(*     the body); every jump lands on a boundary of its own region; no     *)
(*     path runs off the end of its region; main ends in Halt, a function  *)
(*     in Return/ReturnValue;                                              *)
(*   - height is the operand-stack height relative to the frame base       *)
(*     (a function starts at its number of locals); every instruction      *)
(*     finds the operands it pops above the locals; Halt finds height 0;   *)
(*   - constant, local and builtin numbers are in range;                   *)
(*   - every instruction is reached with ONE height (the usual bytecode-   *)
(*     verifier condition).  Two heights at one instruction mean a leak    *)
(*     (class "conflict"); it is reported separately because it is the     *)
(*     loop-residue half of C11 rather than an unsafe access.              *)
(*                                                                         *)
(* The opcode numbering, names and operand widths come from the table the  *)
(* implementation exports (OPTAB), not from this module.                   *)
(*                                                                         *)
(* One behaviour per record: phase "sweep" walks the instruction           *)
(* boundaries, phase "work" runs a deterministic worklist.                 *)
(***************************************************************************)
EXTENDS Integers, Sequences, FiniteSets, TLC, Json, IOUtils

Recs  == ndJsonDeserialize(IOEnv.RECS)
OpTab == ndJsonDeserialize(IOEnv.OPTAB)[1]

VARIABLES pid, ph, sw, bnd, work, seen, viol, nsteps

vars == <<pid, ph, sw, bnd, work, seen, viol, nsteps>>

Code   == Recs[pid].bc.code
Consts == Recs[pid].bc.consts
CLen   == Len(Code)
At(i)  == Code[i + 1]                       \* 0-based byte access
U16(i) == At(i) + 256 * At(i + 1)

Ops == {OpTab.ops[i] : i \in 1..Len(OpTab.ops)}
Defined(b) == \E o \in Ops : o.byte = b
OpOf(b) == CHOOSE o \in Ops : o.byte = b
RECURSIVE SumSeq(_, _)
SumSeq(s, i) == IF i > Len(s) THEN 0 ELSE s[i] + SumSeq(s, i + 1)
SizeOf(b) == 1 + SumSeq(OpOf(b).widths, 1)
NameAt(ip) == OpOf(At(ip)).name

HeightCap == 48          \* heights explored above a region's base before "growth" is reported

(* ---------------- operand-stack effect of each instruction --------------- *)
BinNames == {"Add", "Subtract", "Divide", "Multiply", "Gt", "Gte", "Lt", "Lte", "Eq", "Neq",
             "And", "Or", "Modulo"}
FusedNames == {"GtLocalConst", "GteLocalConst", "LtLocalConst", "LteLocalConst", "EqLocalConst",
               "NeqLocalConst", "AddLocalConst", "SubtractLocalConst", "MultiplyLocalConst",
               "DivideLocalConst", "ModuloLocalConst"}

(* pops / pushes of the instruction at ip (operands read from the code) *)
Pops(ip) ==
  LET n == NameAt(ip) IN
  CASE n \in BinNames -> 2
    [] n \in {"Pop", "Not", "Negate", "JumpIfFalse", "SetLocal", "SetGlobal", "ReturnValue"} -> 1
    [] n = "Call" -> At(ip + 1) + 1
    [] n = "CallBuiltin" -> At(ip + 2)
    [] n = "Array" -> U16(ip + 1)
    [] n = "IndexGet" -> 2
    [] n = "IndexSet" -> 3
    [] OTHER -> 0

Pushes(ip) ==
  LET n == NameAt(ip) IN
  IF n \in {"Pop", "JumpIfFalse", "SetLocal", "SetGlobal", "Jump", "Return", "ReturnValue", "Halt"}
  THEN 0 ELSE 1

(* ------------------------------ regions --------------------------------- *)
FnConsts == {i \in 1..Len(Consts) : Consts[i].t = "Fn"}

(* region 0 is the main code; region i (a constant index) is that function's body *)
RegLo(r) == IF r = 0 THEN 0 ELSE Consts[r].ip
(* a function body is normally preceded by the Jump that skips it; its target is the body's end.   *)
(* If the code generator lays bodies out differently the extent is unknown: the body then extends  *)
(* to the end of the code (weaker region checks, no false alarm).                                   *)
Skipped(r) == Consts[r].ip >= 3 /\ (Consts[r].ip - 3) \in bnd /\ NameAt(Consts[r].ip - 3) = "Jump"
                /\ U16(Consts[r].ip - 2) > Consts[r].ip /\ U16(Consts[r].ip - 2) <= CLen
EntryOk(r) == r = 0 \/ (Consts[r].ip < CLen /\ Consts[r].ip \in bnd)
RegHi(r) == IF r = 0 THEN CLen ELSE IF Skipped(r) THEN U16(Consts[r].ip - 2) ELSE CLen
RegBase(r) == IF r = 0 THEN 0 ELSE Consts[r].nl
Regions == {0} \cup {r \in FnConsts : EntryOk(r)}
Inside(ip, r) == RegLo(r) <= ip /\ ip < RegHi(r)
(* the innermost region containing ip *)
Owner(ip) ==
  CHOOSE r \in Regions : Inside(ip, r)
       /\ \A q \in Regions : Inside(ip, q) => (RegHi(q) - RegLo(q)) >= (RegHi(r) - RegLo(r))

(* ----------------------------- the verifier ----------------------------- *)
Init ==
  /\ pid \in 1..Len(Recs)
  /\ ph = "sweep" /\ sw = 0 /\ bnd = {} /\ work = {} /\ seen = {} /\ viol = {} /\ nsteps = 0

V(class, ip) == [class |-> class, ip |-> ip]

(* phase 1: instruction boundaries by a front-to-back sweep *)
Sweep ==
  /\ ph = "sweep"
  /\ UNCHANGED <<pid, work, seen>>
  /\ nsteps' = nsteps + 1
  /\ IF sw >= CLen
     THEN /\ ph' = "regions" /\ UNCHANGED <<sw, bnd, viol>>
     ELSE IF ~Defined(At(sw))
          THEN /\ viol' = viol \cup {V("undefined-opcode", sw)} /\ ph' = "done" /\ UNCHANGED <<sw, bnd>>
          ELSE IF sw + SizeOf(At(sw)) > CLen
               THEN /\ viol' = viol \cup {V("truncated-operand", sw)} /\ ph' = "done" /\ UNCHANGED <<sw, bnd>>
               ELSE /\ bnd' = bnd \cup {sw} /\ sw' = sw + SizeOf(At(sw)) /\ UNCHANGED <<ph, viol>>

(* phase 2: entry points *)
StartWork ==
  /\ ph = "regions"
  /\ UNCHANGED <<pid, sw, bnd, seen>>
  /\ nsteps' = nsteps + 1
  /\ viol' = viol \cup {V("function-entry", Consts[r].ip) : r \in {q \in FnConsts : ~EntryOk(q)}}
                  \cup (IF CLen = 0 THEN {V("empty-code", 0)} ELSE {})
  /\ work' = {<<r, RegLo(r), RegBase(r)>> : r \in Regions}
  /\ ph' = "work"

(* lexicographically least work item: the exploration is deterministic *)
Less(a, b) == a[1] < b[1] \/ (a[1] = b[1] /\ (a[2] < b[2] \/ (a[2] = b[2] /\ a[3] < b[3])))
Pick == CHOOSE w \in work : \A x \in work : x = w \/ Less(w, x)

(* checks and successors of one abstract state <<region, ip, height>> *)
StepOf(w) ==
  LET r == w[1]  ip == w[2]  h == w[3]
      base == RegBase(r)
      lo == RegLo(r)  hi == RegHi(r)
  IN IF ip >= hi \/ ip < lo \/ ip \notin bnd \/ Owner(ip) # r
     THEN [viol |-> {V(IF ip >= hi THEN "runs-off-region" ELSE "wild-target", ip)}, succ |-> {}]
     ELSE
       LET n == NameAt(ip)
           sz == SizeOf(At(ip))
           under == h - Pops(ip) < base
           h2 == h - Pops(ip) + Pushes(ip)
           cidx == IF n = "Const" THEN U16(ip + 1)
                   ELSE IF n \in FusedNames THEN U16(ip + 3) ELSE 0
           lidx == IF n \in {"GetLocal", "SetLocal"} \/ n \in FusedNames THEN U16(ip + 1) ELSE 0
           usesLocal == n \in {"GetLocal", "SetLocal"} \/ n \in FusedNames
           vs == (IF under THEN {V("stack-underflow", ip)} ELSE {})
                 \cup (IF cidx >= Len(Consts) /\ (n = "Const" \/ n \in FusedNames)
                       THEN {V("constant-index", ip)} ELSE {})
                 \cup (IF usesLocal /\ (r = 0 \/ lidx >= base) THEN {V("local-index", ip)} ELSE {})
                 \cup (IF n = "CallBuiltin" /\ At(ip + 1) >= OpTab.builtins
                       THEN {V("builtin-number", ip)} ELSE {})
                 \cup (IF n = "Halt" /\ r # 0 THEN {V("halt-in-function", ip)} ELSE {})
                 \cup (IF n = "Halt" /\ r = 0 /\ h # 0 THEN {V("halt-height", ip)} ELSE {})
                 \cup (IF n \in {"Return", "ReturnValue"} /\ r = 0 THEN {V("return-in-main", ip)} ELSE {})
                 \cup (IF h2 > base + HeightCap THEN {V("growth", ip)} ELSE {})
           stop == under \/ n \in {"Halt", "Return", "ReturnValue"} \/ h2 > base + HeightCap
           targets == IF n = "Jump" THEN {U16(ip + 1)}
                      ELSE IF n = "JumpIfFalse" THEN {U16(ip + 1), ip + sz}
                      ELSE {ip + sz}
       IN [viol |-> vs, succ |-> IF stop THEN {} ELSE {<<r, t, h2>> : t \in targets}]

(* Binding of the effect table to the real machine: between two consecutive recorded   *)
(* dispatches in the same frame the real stack length must change by pushes - pops.     *)
(* A step event is <<ip, opcode byte, stack length, base pointer, frame count>>.        *)
Steps == IF "steps" \in DOMAIN Recs[pid] THEN Recs[pid].steps ELSE <<>>
EffectDrift ==
  {V("vm-effect", Steps[i][1]) : i \in {j \in 1..(Len(Steps) - 1) :
      /\ Steps[j][5] = Steps[j + 1][5]                      \* same frame depth
      /\ Steps[j][1] \in bnd
      /\ NameAt(Steps[j][1]) \notin {"Call", "Return", "ReturnValue"}
      /\ Steps[j + 1][3] - Steps[j][3] # Pushes(Steps[j][1]) - Pops(Steps[j][1])}}
  \cup {V("vm-fetch", Steps[i][1]) : i \in {j \in 1..Len(Steps) : Steps[j][1] \notin bnd}}

(* An out-of-contract access noticed by a probe in the real machine while it ran *)
ProbeFaults ==
  IF Recs[pid].obs.class = "Fault" \/ "late_fault" \in DOMAIN Recs[pid].obs
  THEN {V("probe-fault", 0)} ELSE {}

Work ==
  /\ ph = "work"
  /\ UNCHANGED <<pid, sw, bnd>>
  /\ nsteps' = nsteps + 1
  /\ IF work = {} THEN /\ ph' = "done" /\ UNCHANGED <<work, seen>>
                        /\ viol' = viol \cup EffectDrift \cup ProbeFaults
     ELSE LET w == Pick
              s == StepOf(w)
              known == seen \cup work \cup {w}
              \* a successor that reaches a visited instruction at a GREATER height is recorded as a
              \* conflict but not explored further (it can only grow); at a SMALLER height it is
              \* explored, because it may run into an underflow
              higher == {y \in s.succ : \E z \in known : z[1] = y[1] /\ z[2] = y[2] /\ z[3] < y[3]}
              fresh == (s.succ \ (seen \cup {w})) \ higher
              \* one height per instruction: a successor reaching a visited ip at another height
              confl == {V("conflict", x[2]) : x \in {y \in s.succ :
                            \E z \in (seen \cup work \cup {w}) : z[1] = y[1] /\ z[2] = y[2] /\ z[3] # y[3]}}
          IN /\ work' = (work \ {w}) \cup fresh
             /\ seen' = seen \cup {w}
             /\ viol' = IF Cardinality(viol) >= 12 THEN viol ELSE viol \cup s.viol \cup confl
             /\ ph' = ph

Next == Sweep \/ StartWork \/ Work

Spec == Init /\ [][Next]_vars

Done == ph = "done"

(* classes that mean an unchecked access can go wrong (C02); "conflict", "growth" and   *)
(* "halt-height" (slots left behind) are the residue half (C11)                         *)
Unsafe == {v \in viol : v.class \notin {"conflict", "growth", "halt-height"}}

ViolSeq(S) == LET RECURSIVE Ser(_)
                  Ser(T) == IF T = {} THEN <<>>
                            ELSE LET x == CHOOSE y \in T : \A z \in T : y.ip <= z.ip
                                 IN <<x>> \o Ser(T \ {x})
              IN Ser(S)

(* instruction names this specification knows the stack effect of; a program that uses another one   *)
(* (an extended instruction set) gets no verdict                                                    *)
KnownNames == BinNames \cup FusedNames \cup {"Const", "True", "False", "Null", "Pop", "Not", "Negate", "Jump", "JumpIfFalse",
                 "GetGlobal", "SetGlobal", "GetLocal", "SetLocal", "Call", "Return", "ReturnValue", "CallBuiltin",
                 "Array", "IndexGet", "IndexSet", "Halt"}
UnknownUsed == \E ip \in bnd : NameAt(ip) \notin KnownNames

Report ==
  Done => PrintT(<<"VERDICT", ToJson([id |-> Recs[pid].id,
                                      class |-> IF UnknownUsed THEN "skip"
                                                ELSE IF Unsafe # {} THEN "mismatch"
                                                ELSE IF viol # {} THEN "residue" ELSE "agree",
                                      rule |-> IF viol = {} THEN "safe"
                                               ELSE (CHOOSE v \in viol : \A z \in viol : v.ip <= z.ip).class,
                                      viol |-> ViolSeq(viol),
                                      visited |-> Cardinality(seen), instrs |-> Cardinality(bnd)])>>)

(* every explored instruction of a verified program has exactly one height *)
OneHeight == Done /\ viol = {} =>
               \A a \in seen : \A b \in seen : (a[1] = b[1] /\ a[2] = b[2]) => a[3] = b[3]
=============================================================================
