---------------------------- MODULE TV_ParseAny ----------------------------
(***************************************************************************)
(* C07 / C05: the real parser against the specified parser (NlParser) on   *)
(* ARBITRARY texts -- generated programs, token edits, random token        *)
(* sequences, truncations -- not only on printed forms of trees.           *)
(* A record: [id, chars (classified characters), got_ok, got_kind, got     *)
(* (the nested tree the real parser built; integers as their decimal       *)
(* digits; floats by kind only)].  One state per record.                   *)
(*   accept   the specification rejects the text, the parser accepts it    *)
(*   reject   the other way round                                          *)
(*   tree     both accept, the trees differ                                *)
(*   errkind  both reject, the parser's error is not a syntax/type error   *)
(***************************************************************************)
EXTENDS NlParser, TLC, Json, IOUtils

Recs == ndJsonDeserialize(IOEnv.RECS)
VARIABLE pid
Init == pid \in 1..Len(Recs)
Next == UNCHANGED pid

RECURSIVE StripZeros(_)
StripZeros(d) == IF Len(d) > 1 /\ d[1] = 48 THEN StripZeros(Tail(d)) ELSE d

(* decimal digits of the largest integer, 2^60 - 1 *)
MaxDigits == <<49,49,53,50,57,50,49,53,48,52,54,48,54,56,52,54,57,55,53>>
RECURSIVE LexLeq(_, _, _)
LexLeq(a, b, i) == IF i > Len(a) THEN TRUE ELSE IF a[i] < b[i] THEN TRUE ELSE IF a[i] > b[i] THEN FALSE ELSE LexLeq(a, b, i + 1)
FitsInt(d) == LET s == StripZeros(d) IN Len(s) < Len(MaxDigits) \/ (Len(s) = Len(MaxDigits) /\ LexLeq(s, MaxDigits, 1))

(* does the specification's tree contain an integer literal that does not fit? (then the text is rejected) *)
RECURSIVE BadInt(_)
RECURSIVE BadIntSeq(_)
BadIntSeq(s) == \E i \in 1..Len(s) : BadInt(s[i])
BadInt(t) ==
  CASE t.k = "Int" -> ~FitsInt(t.digits)
    [] t.k \in {"Infix"} -> BadInt(t.l) \/ BadInt(t.r)
    [] t.k = "Prefix" -> BadInt(t.r)
    [] t.k = "Call" -> BadInt(t.f) \/ BadIntSeq(t.args)
    [] t.k = "Index" -> BadInt(t.l) \/ BadInt(t.i)
    [] t.k = "Assign" -> BadInt(t.l) \/ BadInt(t.r)
    [] t.k = "Array" -> BadIntSeq(t.vals)
    [] t.k = "If" -> BadInt(t.c) \/ BadIntSeq(t.th) \/ BadIntSeq(t.el)
    [] t.k = "While" -> BadInt(t.c) \/ BadIntSeq(t.body)
    [] t.k = "Func" -> BadIntSeq(t.body)
    [] t.k \in {"Expr", "Return", "Let"} -> BadInt(t.e)
    [] t.k = "Block" -> BadIntSeq(t.body)
    [] OTHER -> FALSE

RECURSIVE PEq(_, _)
RECURSIVE PEqSeq(_, _)
PEqSeq(a, b) == Len(a) = Len(b) /\ \A i \in 1..Len(a) : PEq(a[i], b[i])
PEq(a, b) ==
  /\ a.k = b.k
  /\ CASE a.k = "Int" -> StripZeros(a.digits) = StripZeros(b.digits)
       [] a.k = "Float" -> TRUE
       [] a.k = "Bool" -> a.v = b.v
       [] a.k = "Ident" -> a.name = b.name
       [] a.k = "Str" -> a.cp = b.cp
       [] a.k = "Infix" -> a.op = b.op /\ PEq(a.l, b.l) /\ PEq(a.r, b.r)
       [] a.k = "Prefix" -> a.op = b.op /\ PEq(a.r, b.r)
       [] a.k = "Call" -> PEq(a.f, b.f) /\ PEqSeq(a.args, b.args)
       [] a.k = "Index" -> PEq(a.l, b.l) /\ PEq(a.i, b.i)
       [] a.k = "Assign" -> PEq(a.l, b.l) /\ PEq(a.r, b.r)
       [] a.k = "Array" -> PEqSeq(a.vals, b.vals)
       [] a.k = "If" -> PEq(a.c, b.c) /\ PEqSeq(a.th, b.th) /\ a.hasel = b.hasel /\ PEqSeq(a.el, b.el)
       [] a.k = "While" -> PEq(a.c, b.c) /\ PEqSeq(a.body, b.body)
       [] a.k = "Func" -> a.name = b.name /\ a.params = b.params /\ PEqSeq(a.body, b.body)
       [] a.k \in {"Expr", "Return"} -> PEq(a.e, b.e)
       [] a.k = "Let" -> a.name = b.name /\ PEq(a.e, b.e)
       [] a.k = "Block" -> PEqSeq(a.body, b.body)
       [] OTHER -> TRUE

Verdict ==
  LET r == Recs[pid]
      s == ParseChars(r.chars)
      sok == s.ok /\ ~BadIntSeq(s.t)
  IN IF r.crashed THEN "crash"
     ELSE IF ~sok /\ r.got_ok THEN "accept"
     ELSE IF sok /\ ~r.got_ok THEN "reject"
     ELSE IF ~sok THEN (IF r.got_kind \in {"Syntax", "Type"} THEN "ok" ELSE "errkind")
     ELSE IF PEqSeq(s.t, r.got) THEN "ok" ELSE "tree"

Report ==
  PrintT(<<"VERDICT", ToJson([id |-> Recs[pid].id, class |-> IF Verdict = "ok" THEN "agree" ELSE "mismatch",
                              rule |-> Verdict])>>)
=============================================================================
