------------------------------- MODULE NlTotal -------------------------------
(***************************************************************************)
(* Totality of evaluation (property C05): the outcome alphabet.            *)
(*                                                                         *)
(* The specification pipeline NlLexer -> NlStatic -> NlSem is a total      *)
(* function of the input: every behaviour of NlSem ends in Val, Err(kinds) *)
(* or is still running when its step budget ends (a loop or recursion the  *)
(* program spells out).  It has no action that produces anything else.     *)
(* So a recorded execution of the real interpreter is admissible only if   *)
(* its outcome is                                                          *)
(*     Value                                                               *)
(*   | Err(kind) with kind one of the five documented kinds                *)
(*   | Budget    and then only if the reference semantics, run on the same *)
(*               tree, is itself still running (decided by TV_Sem on the   *)
(*               record's tree: rule "diverges")                           *)
(* and never Panic, Abort (a signal), Timeout (a hang in lexing, parsing   *)
(* or compiling) or Fault (an unchecked contract of the machine broken).   *)
(* For the real binary the alphabet is Exit (status 0 or an error message  *)
(* on a normal exit); status 101, a signal or a timeout are not in it.     *)
(***************************************************************************)
EXTENDS Integers, Sequences, TLC, Json, IOUtils

Recs == ndJsonDeserialize(IOEnv.RECS)
VARIABLE pid
Init == pid \in 1..Len(Recs)
Next == UNCHANGED pid

Kinds == {"Type", "Syntax", "Reference", "Index", "Argument"}

Admissible(o) ==
  \/ o.class = "Value"
  \/ o.class = "Err" /\ o.kind \in Kinds
  \/ o.class = "Budget"
  \/ o.class = "Exit"

Report ==
  LET r == Recs[pid] IN
  PrintT(<<"VERDICT", ToJson([id |-> r.id, class |-> IF Admissible(r.obs) THEN "agree" ELSE "mismatch",
                              rule |-> r.obs.class])>>)
=============================================================================
