-------------------------------- MODULE NlVM --------------------------------
(***************************************************************************)
(* The stack machine, as the code implements it (src/vm.rs), over the REAL *)
(* compiler's output.  One action per opcode family.  Used for             *)
(*                                                                         *)
(*  translation validation   the bytecode the real compiler emitted for a  *)
(*      tree, run on this machine, must produce what the reference         *)
(*      semantics NlSem says the tree means (C01: "translating the program *)
(*      to bytecode never changes what the program means") -- this         *)
(*      separates "the compiler changed the meaning" from "the machine     *)
(*      executed it wrongly";                                              *)
(*  lock-step conformance    the real machine's recorded dispatch events   *)
(*      <<ip, opcode, sp, bp, frames>> must be this machine's, step by     *)
(*      step (C02, C11, C12).                                              *)
(*                                                                         *)
(* State:  ip, stack, globals, frames (sequence of [ret, bp]), bp, heap,   *)
(* out, final (the value of the last Pop), res.  Values are NlValues       *)
(* values; a function value is [t |-> "Fn", d |-> entry ip].  Constants    *)
(* are loaded once: texts become heap cells shared by every Const that     *)
(* names them (as in the implementation).                                  *)
(*                                                                         *)
(* The opcode numbering, names and operand widths come from the exported   *)
(* table (OPTAB).                                                          *)
(***************************************************************************)
EXTENDS NlValues, TLC, NlRecs

OpTab == ndJsonDeserialize(IOEnv.OPTAB)[1]

VARIABLE vm

MaxVmSteps == 15000

Code   == Recs[pid].bc.code
KConst == Recs[pid].bc.consts
At(i)  == Code[i + 1]
U16(i) == At(i) + 256 * At(i + 1)

Ops == {OpTab.ops[i] : i \in 1..Len(OpTab.ops)}
NameOf(b) == IF \E o \in Ops : o.byte = b THEN (CHOOSE o \in Ops : o.byte = b).name ELSE "?"
BuiltinName(b) == OpTab.builtin_names[b + 1]        \* the compiler's numbering of the builtins, as exported

(* ------------------------------ loading --------------------------------- *)
(* heap cells for the text constants, in constant order; constant values *)
StrConsts == SelectSeq([i \in 1..Len(KConst) |-> i], LAMBDA i : KConst[i].t = "S")
HeapAtLoad == [j \in 1..Len(StrConsts) |-> [k |-> "S", items |-> KConst[StrConsts[j]].cp, lit |-> 1]]
PosIn(s, x) == CHOOSE j \in 1..Len(s) : s[j] = x
ConstVal(i) ==
  LET c == KConst[i] IN
  CASE c.t = "I" -> IF "v" \in DOMAIN c THEN V(IntV(c.v)) ELSE DK("int-range")
    [] c.t = "F" -> IF "m" \in DOMAIN c THEN FltRes(c.m, c.e) ELSE DK("float-range")
    [] c.t = "S" -> V(StrV(PosIn(StrConsts, i)))
    [] c.t = "Fn" -> V([t |-> "Fn", d |-> c.ip])
    [] OTHER -> DK("constant")
LocalsOfFn(entry) == (CHOOSE i \in 1..Len(KConst) : KConst[i].t = "Fn" /\ KConst[i].ip = entry)

VmInit ==
  /\ pid \in 1..Len(Recs)
  /\ vm = [ip |-> 0, stack |-> <<>>, globals |-> <<>>, frames |-> <<>>, bp |-> 0,
           heap |-> HeapAtLoad, out |-> <<>>, final |-> Null, res |-> DK("running"), n |-> 0,
           halted |-> FALSE, drift |-> 0]

(* ------------------------------ helpers --------------------------------- *)
Sp == Len(vm.stack)
TopN(k) == SubSeq(vm.stack, Sp - k + 1, Sp)          \* the k topmost values, bottom first
Drop(k) == SubSeq(vm.stack, 1, Sp - k)

(* lock step: the (n+1)-th recorded dispatch of the real machine must be this machine's state *)
(* after n instructions; the first step where it is not is remembered in vm.drift           *)
Ev == IF "steps" \in DOMAIN Recs[pid] THEN Recs[pid].steps ELSE <<>>
Matches ==
  vm.n + 1 > Len(Ev) \/
  LET e == Ev[vm.n + 1] IN e[1] = vm.ip /\ e[3] = Len(vm.stack) /\ e[4] = vm.bp /\ e[5] = Len(vm.frames) + 1
DriftNow == IF vm.drift = 0 /\ ~Matches THEN vm.n + 1 ELSE vm.drift

Upd(f) == /\ pid' = pid
          /\ vm' = [x \in DOMAIN vm |-> IF x = "n" THEN vm.n + 1
                                         ELSE IF x = "drift" THEN DriftNow
                                         ELSE IF x \in DOMAIN f THEN f[x] ELSE vm[x]]
Stop(r) == /\ pid' = pid /\ vm' = [vm EXCEPT !.halted = TRUE, !.res = r, !.drift = DriftNow]
Next3(r, f) == IF r.k = "V" THEN Upd(f) ELSE Stop(r)        \* continue only with a value

Name == NameOf(At(vm.ip))

BinNames == [n \in {"Add", "Subtract", "Divide", "Multiply", "Gt", "Gte", "Lt", "Lte", "Eq", "Neq", "And", "Or", "Modulo"} |->
  CASE n = "Add" -> "+" [] n = "Subtract" -> "-" [] n = "Divide" -> "/" [] n = "Multiply" -> "*"
    [] n = "Gt" -> ">" [] n = "Gte" -> ">=" [] n = "Lt" -> "<" [] n = "Lte" -> "<=" [] n = "Eq" -> "=="
    [] n = "Neq" -> "!=" [] n = "And" -> "&&" [] n = "Or" -> "||" [] n = "Modulo" -> "%"]
FusedNames == [n \in {"GtLocalConst", "GteLocalConst", "LtLocalConst", "LteLocalConst", "EqLocalConst", "NeqLocalConst",
                      "AddLocalConst", "SubtractLocalConst", "MultiplyLocalConst", "DivideLocalConst", "ModuloLocalConst"} |->
  CASE n = "GtLocalConst" -> ">" [] n = "GteLocalConst" -> ">=" [] n = "LtLocalConst" -> "<" [] n = "LteLocalConst" -> "<="
    [] n = "EqLocalConst" -> "==" [] n = "NeqLocalConst" -> "!=" [] n = "AddLocalConst" -> "+"
    [] n = "SubtractLocalConst" -> "-" [] n = "MultiplyLocalConst" -> "*" [] n = "DivideLocalConst" -> "/"
    [] n = "ModuloLocalConst" -> "%"]

Running == ~vm.halted /\ vm.ip < Len(Code)

(* ------------------------------ actions --------------------------------- *)
Budget ==
  /\ Running /\ vm.n >= MaxVmSteps
  /\ Stop(DK("budget"))

OpConst ==
  /\ Running /\ vm.n < MaxVmSteps /\ Name = "Const"
  /\ LET r == ConstVal(U16(vm.ip + 1) + 1)
     IN Next3(r, [ip |-> vm.ip + 3, stack |-> Append(vm.stack, r.v)])

OpPush ==        \* True, False, Null
  /\ Running /\ vm.n < MaxVmSteps /\ Name \in {"True", "False", "Null"}
  /\ Upd([ip |-> vm.ip + 1,
          stack |-> Append(vm.stack, CASE Name = "True" -> BoolV(TRUE) [] Name = "False" -> BoolV(FALSE)
                                       [] OTHER -> Null)])

OpPop ==
  /\ Running /\ vm.n < MaxVmSteps /\ Name = "Pop"
  /\ Upd([ip |-> vm.ip + 1, stack |-> Drop(1), final |-> vm.stack[Sp]])

OpBinary ==
  /\ Running /\ vm.n < MaxVmSteps /\ Name \in DOMAIN BinNames
  /\ LET r == BinOp(BinNames[Name], vm.stack[Sp - 1], vm.stack[Sp], vm.heap)
     IN Next3(r, [ip |-> vm.ip + 1, stack |-> Append(Drop(2), r.v)])

OpUnary ==
  /\ Running /\ vm.n < MaxVmSteps /\ Name \in {"Not", "Negate"}
  /\ LET r == UnOp(IF Name = "Not" THEN "!" ELSE "-", vm.stack[Sp])
     IN Next3(r, [ip |-> vm.ip + 1, stack |-> Append(Drop(1), r.v)])

OpFused ==        \* local <op> constant
  /\ Running /\ vm.n < MaxVmSteps /\ Name \in DOMAIN FusedNames
  /\ LET c == ConstVal(U16(vm.ip + 3) + 1)
         l == vm.stack[vm.bp + U16(vm.ip + 1) + 1]
     IN IF c.k # "V" THEN Stop(c)
        ELSE LET r == BinOp(FusedNames[Name], l, c.v, vm.heap)
             IN Next3(r, [ip |-> vm.ip + 5, stack |-> Append(vm.stack, r.v)])

OpJump ==
  /\ Running /\ vm.n < MaxVmSteps /\ Name = "Jump"
  /\ Upd([ip |-> U16(vm.ip + 1)])

OpJumpIfFalse ==
  /\ Running /\ vm.n < MaxVmSteps /\ Name = "JumpIfFalse"
  /\ LET c == vm.stack[Sp] IN
     IF c.t # "B" THEN Stop(E({"Type"}))
     ELSE Upd([ip |-> IF c.v THEN vm.ip + 3 ELSE U16(vm.ip + 1), stack |-> Drop(1)])

OpGlobal ==
  /\ Running /\ vm.n < MaxVmSteps /\ Name \in {"GetGlobal", "SetGlobal"}
  /\ LET idx == U16(vm.ip + 1) + 1 IN
     IF Name = "GetGlobal"
     THEN Upd([ip |-> vm.ip + 3,
               stack |-> Append(vm.stack, IF idx <= Len(vm.globals) THEN vm.globals[idx] ELSE Null)])
     ELSE LET g == IF idx <= Len(vm.globals) THEN vm.globals
                   ELSE vm.globals \o [j \in 1..(idx - Len(vm.globals)) |-> Null]
          IN Upd([ip |-> vm.ip + 3, stack |-> Drop(1), globals |-> [g EXCEPT ![idx] = vm.stack[Sp]]])

OpLocal ==
  /\ Running /\ vm.n < MaxVmSteps /\ Name \in {"GetLocal", "SetLocal"}
  /\ LET idx == vm.bp + U16(vm.ip + 1) + 1 IN
     IF Name = "GetLocal" THEN Upd([ip |-> vm.ip + 3, stack |-> Append(vm.stack, vm.stack[idx])])
     ELSE Upd([ip |-> vm.ip + 3, stack |-> [Drop(1) EXCEPT ![idx] = vm.stack[Sp]]])

OpCall ==
  /\ Running /\ vm.n < MaxVmSteps /\ Name = "Call"
  /\ LET argc == At(vm.ip + 1)
         f == vm.stack[Sp]
     IN IF Sp > 65535 THEN Stop(E(AllKinds))
        ELSE IF f.t # "Fn" THEN Stop(E({"Type"}))
        ELSE LET nl == KConst[LocalsOfFn(f.d)].nl IN
             IF argc > nl THEN Stop(E({"Argument"}))
             ELSE Upd([ip |-> f.d,
                       bp |-> Sp - 1 - argc,
                       stack |-> Drop(1) \o [j \in 1..(nl - argc) |-> Null],
                       frames |-> Append(vm.frames, [ret |-> vm.ip + 2, bp |-> vm.bp])])

OpReturn ==
  /\ Running /\ vm.n < MaxVmSteps /\ Name \in {"Return", "ReturnValue"}
  /\ LET fr == vm.frames[Len(vm.frames)]
         v == IF Name = "ReturnValue" THEN vm.stack[Sp] ELSE Null
     IN Upd([ip |-> fr.ret, bp |-> fr.bp,
             stack |-> Append(SubSeq(vm.stack, 1, vm.bp), v),
             frames |-> SubSeq(vm.frames, 1, Len(vm.frames) - 1)])

OpCallBuiltin ==
  /\ Running /\ vm.n < MaxVmSteps /\ Name = "CallBuiltin"
  /\ LET argc == At(vm.ip + 2)
         r == CallBuiltin(BuiltinName(At(vm.ip + 1)), TopN(argc), vm.heap)
     IN IF r.r.k = "V"
        THEN Upd([ip |-> vm.ip + 3, stack |-> Append(Drop(argc), r.r.v), heap |-> r.h, out |-> vm.out \o r.out])
        ELSE /\ pid' = pid /\ vm' = [vm EXCEPT !.halted = TRUE, !.res = r.r, !.out = vm.out \o r.out, !.drift = DriftNow]

OpArray ==
  /\ Running /\ vm.n < MaxVmSteps /\ Name = "Array"
  /\ LET k == U16(vm.ip + 1)
     IN Upd([ip |-> vm.ip + 3, stack |-> Append(Drop(k), ArrV(Len(vm.heap) + 1)),
             heap |-> Append(vm.heap, ArrCell(TopN(k)))])

OpIndexGet ==
  /\ Running /\ vm.n < MaxVmSteps /\ Name = "IndexGet"
  /\ LET r == IndexGet(vm.stack[Sp - 1], vm.stack[Sp], vm.heap)
     IN Next3(r.r, [ip |-> vm.ip + 1, stack |-> Append(Drop(2), r.r.v), heap |-> r.h])

OpIndexSet ==
  /\ Running /\ vm.n < MaxVmSteps /\ Name = "IndexSet"
  /\ LET r == IndexSet(vm.stack[Sp - 2], vm.stack[Sp - 1], vm.stack[Sp], vm.heap)
     IN Next3(r.r, [ip |-> vm.ip + 1, stack |-> Append(Drop(3), r.r.v), heap |-> r.h])

OpHalt ==
  /\ Running /\ vm.n < MaxVmSteps /\ Name = "Halt"
  /\ Stop(V(vm.final))

(* an instruction this specification does not know (the instruction set was extended): no verdict *)
KnownNames == {"Const", "True", "False", "Null", "Pop", "Not", "Negate", "Jump", "JumpIfFalse", "GetGlobal", "SetGlobal",
               "GetLocal", "SetLocal", "Call", "Return", "ReturnValue", "CallBuiltin", "Array", "IndexGet", "IndexSet", "Halt"}
              \cup DOMAIN BinNames \cup DOMAIN FusedNames
OpUnknown ==
  /\ Running /\ vm.n < MaxVmSteps /\ Name \notin KnownNames
  /\ Stop(DK("unknown-opcode"))

(* control left the code (only possible if the compiler's output is not what NlBcSafe accepts) *)
OffCode ==
  /\ ~vm.halted /\ vm.ip >= Len(Code)
  /\ Stop(DK("off-code"))

VmNext == Budget \/ OpConst \/ OpPush \/ OpPop \/ OpBinary \/ OpUnary \/ OpFused \/ OpJump \/ OpJumpIfFalse
        \/ OpGlobal \/ OpLocal \/ OpCall \/ OpReturn \/ OpCallBuiltin \/ OpArray \/ OpIndexGet \/ OpIndexSet
        \/ OpHalt \/ OpUnknown \/ OffCode

vmvars == <<pid, vm>>
VmSpec == VmInit /\ [][VmNext]_vmvars

(* -------------------------- conformance -------------------------------- *)
VmUnfoldDepth == 5
VmIsPrefixOf(a, b) == Len(a) <= Len(b) /\ \A i \in 1..Len(a) : a[i] = b[i]

(* the recorded observation of the real run against this machine's result *)
VmVerdict ==
  LET o == Recs[pid].obs  r == vm.res IN
  IF o.class \in {"Panic", "Abort", "Timeout", "Fault"} THEN [class |-> "mismatch", rule |-> "crash"]
  ELSE IF r.k = "DK" THEN [class |-> "skip", rule |-> r.why]
  ELSE IF o.class = "Budget" THEN [class |-> "skip", rule |-> "impl-budget"]
  ELSE IF r.k = "V" THEN
       IF o.class # "Value" THEN [class |-> "mismatch", rule |-> "class"]
       ELSE IF vm.out # o.out THEN [class |-> "mismatch", rule |-> "out"]
       ELSE IF UEq(Unfold(r.v, vm.heap, VmUnfoldDepth), o.val) THEN [class |-> "agree", rule |-> "value"]
       ELSE [class |-> "mismatch", rule |-> "value"]
  ELSE IF o.class # "Err" THEN [class |-> "mismatch", rule |-> "class"]
       ELSE IF o.kind \notin r.s THEN [class |-> "mismatch", rule |-> "errkind"]
       ELSE IF vm.out # o.out THEN [class |-> "mismatch", rule |-> "out"]
       ELSE [class |-> "agree", rule |-> "error"]

Summary ==
  IF vm.res.k = "V" THEN [k |-> "V", v |-> Unfold(vm.res.v, vm.heap, VmUnfoldDepth)]
  ELSE IF vm.res.k = "E" THEN [k |-> "E", s |-> vm.res.s] ELSE [k |-> "DK", why |-> vm.res.why]

VmReport ==
  vm.halted => PrintT(<<"VERDICT", ToJson([id |-> Recs[pid].id, class |-> VmVerdict.class, rule |-> VmVerdict.rule,
                                           steps |-> vm.n, drift |-> vm.drift, events |-> Len(Ev),
                                           vmres |-> Summary, vmout |-> vm.out])>>)
=============================================================================
