------------------------------ MODULE TV_Big ------------------------------
(***************************************************************************)
(* C06 on the whole 61-bit integer range: validation of what the real      *)
(* `eval` answered for `a op b` -- for all 11 operators, in the three      *)
(* syntactic forms (literal op literal; variable op literal and literal    *)
(* op variable inside a function, which selects the fused instructions) -- *)
(* against exact arithmetic on limb sequences (NlBig).                     *)
(*                                                                         *)
(* A record: [id, a, b, obs] with a, b numbers [neg, mag] and              *)
(* obs[op] = sequence of three observations, each                          *)
(*   [c |-> "I", neg, mag] | [c |-> "B", v] | [c |-> "E", kind] | [c |-> "X", what]*)
(* One state per record; the verdict lists every (operator, form) whose    *)
(* observation is not the exact answer.                                    *)
(***************************************************************************)
EXTENDS NlBig, TLC, Json, IOUtils, FiniteSets

Recs == ndJsonDeserialize(IOEnv.RECS)

VARIABLE pid

ArithOps == <<"+", "-", "*", "/", "%">>
CmpOps == <<"<", "<=", ">", ">=", "==", "!=">>

CmpHolds(op, c) ==
  CASE op = "<" -> c < 0 [] op = "<=" -> c <= 0 [] op = ">" -> c > 0
    [] op = ">=" -> c >= 0 [] op = "==" -> c = 0 [] op = "!=" -> c # 0

IsInt(o) == o.c = "I"
AsBig(o) == Mk(o.neg, o.mag)

(* is observation o the right answer to  a op b ?  (q, r: the observed / and % of the same form) *)
Right(op, a, b, o, oq, orr) ==
  CASE op \in {"+", "-", "*"} ->
         LET x == IF op = "+" THEN Add(a, b) ELSE IF op = "-" THEN Sub(a, b) ELSE Mul(a, b)
         IN IF InRange(x) THEN IsInt(o) /\ AsBig(o) = x ELSE o.c = "E"
    [] op \in {"/", "%"} ->
         IF b.mag = <<>> THEN o.c = "E"
         ELSE IF a = MinInt /\ b = Mk(TRUE, <<1>>)
              THEN (IF op = "/" THEN o.c = "E" ELSE IsInt(o) /\ AsBig(o) = Zero)
         ELSE /\ IsInt(oq) /\ IsInt(orr) /\ IsInt(o)
              /\ IsDivRem(a, b, AsBig(oq), AsBig(orr))
    [] OTHER -> o.c = "B" /\ o.v = CmpHolds(op, Cmp(a, b))

(* unary minus of a (written on a literal, a parameter and a global): exact, or an error when -a leaves the range *)
RightNeg(a, o) == IF InRange(Neg(a)) THEN IsInt(o) /\ AsBig(o) = Neg(a) ELSE o.c = "E"

Wrong ==
  LET r == Recs[pid]
      a == Mk(r.a.neg, r.a.mag)
      b == Mk(r.b.neg, r.b.mag)
      allops == {"+", "-", "*", "/", "%", "<", "<=", ">", ">=", "==", "!="}
  IN {<<op, f>> \in allops \X (1..3) :
        ~Right(op, a, b, r.obs[op][f], r.obs["/"][f], r.obs["%"][f])}
     \cup (IF "neg" \in DOMAIN r.obs
           THEN {<<"neg", f>> : f \in {g \in 1..3 : ~RightNeg(a, r.obs["neg"][g])}}
           ELSE {})

Init == pid \in 1..Len(Recs)
Next == UNCHANGED pid

SetToSeq(S) == LET RECURSIVE Ser(_)
                   Ser(T) == IF T = {} THEN <<>> ELSE LET x == CHOOSE y \in T : TRUE IN <<x>> \o Ser(T \ {x})
               IN Ser(S)

Report ==
  PrintT(<<"VERDICT", ToJson([id |-> Recs[pid].id,
                              class |-> IF Wrong = {} THEN "agree" ELSE "mismatch",
                              rule |-> IF Wrong = {} THEN "exact" ELSE "operator",
                              wrong |-> SetToSeq(Wrong)])>>)

(* design-level sanity of the limb arithmetic, checked on the boundary values (M1) *)
Sanity ==
  /\ IsBig(TwoTo60) /\ IsBig(MaxInt) /\ IsBig(MinInt)
  /\ Add(MaxInt, Mk(FALSE, <<1>>)) = TwoTo60
  /\ Sub(Zero, TwoTo60) = MinInt
  /\ Mul(MinInt, Mk(TRUE, <<1>>)) = TwoTo60
  /\ Cmp(MinInt, MaxInt) = -1
  /\ ~InRange(TwoTo60) /\ InRange(MaxInt) /\ InRange(MinInt) /\ ~InRange(Sub(MinInt, Mk(FALSE, <<1>>)))
  /\ Mul(FromSmall(65536), FromSmall(65536)) = Mul(Mul(FromSmall(256), FromSmall(256)), Mul(FromSmall(256), FromSmall(256)))
  /\ IsDivRem(FromSmall(-7), FromSmall(2), FromSmall(-3), FromSmall(-1))
  /\ ~IsDivRem(FromSmall(-7), FromSmall(2), FromSmall(-4), FromSmall(1))
ASSUME Sanity
=============================================================================
