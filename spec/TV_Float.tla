------------------------------ MODULE TV_Float ------------------------------
(* C06 on floats: every comparison of every pair, and the arithmetic of special values, as   *)
(* answered by the real eval for `a op b` in the three syntactic forms.  A record:           *)
(* [id, a, b (bit fields), cmp (op -> three observations [c |-> "B", v] | ...),               *)
(*  ar (op -> three observations [c |-> "F", s, e, h, l] | [c |-> "E"] | ...)].               *)
EXTENDS NlFloatArith, FiniteSets, TLC, Json, IOUtils

Recs == ndJsonDeserialize(IOEnv.RECS)
VARIABLE pid
Init == pid \in 1..Len(Recs)
Next == UNCHANGED pid

CmpOps == {"<", "<=", ">", ">=", "==", "!="}
ArOps == {"+", "-", "*", "/", "%"}

(* a finite result that no special value decides must be THE correctly rounded IEEE result (NlFloatArith); the   *)
(* second and third syntactic forms are decided by the first when they were answered alike                      *)
HasQ(r) == "modq" \in DOMAIN r
QOf(r) == IF HasQ(r) THEN r.modq ELSE <<>>
ExactOf(op, r, o) == Exact(op, r.a, r.b, QOf(r), HasQ(r), o)
ArRight(op, r, f) ==
  LET a == r.a  b == r.b  o == r.ar[op][f]  want == ArithClass(op, a, b) IN
  IF want = "any" THEN o.c = "F" /\ (IF f > 1 /\ o = r.ar[op][1] THEN TRUE ELSE ExactOf(op, r, o) # "wrong")
  ELSE IF o.c # "F" THEN FALSE
  ELSE IF want = "same-as-a" THEN o.s = a.s /\ o.e = a.e /\ o.h = a.h /\ o.l = a.l
  ELSE Class(o) = want

(* results that were not decided: a remainder whose quotient is too large to be recorded as a witness *)
Undecided(r) == {op \in ArOps : ArithClass(op, r.a, r.b) = "any" /\ r.ar[op][1].c = "F" /\ ExactOf(op, r, r.ar[op][1]) = "skip"}
Rounded(r) == {op \in ArOps : ArithClass(op, r.a, r.b) = "any"}

Denotes(o, x) == o.c = "F" /\ (IF IsNaN(x) THEN IsNaN(o) ELSE o.s = x.s /\ o.e = x.e /\ o.h = x.h /\ o.l = x.l)

Wrong ==
  LET r == Recs[pid] IN
  {<<op, f>> \in CmpOps \X (1..3) : ~(r.cmp[op][f].c = "B" /\ r.cmp[op][f].v = Compare(op, r.a, r.b))}
  \cup {<<op, f>> \in ArOps \X (1..3) : ~ArRight(op, r, f)}
  \* the operand written down as a program of its own denotes exactly that float (shortest and long spelling)
  \cup (IF "lit" \in DOMAIN r
        THEN {<<"literal", f>> : f \in {g \in 1..4 : ~Denotes(r.lit[g], IF g \in {1, 3} THEN r.a ELSE r.b)}}
        ELSE {})
  \cup (IF "spellings" \in DOMAIN r
        THEN {<<"spelling", g>> : g \in {h \in 1..Len(r.spellings) : ~Denotes(r.spellings[h].obs, r.spellings[h].want)}}
        ELSE {})

SetToSeq(S) == LET RECURSIVE Ser(_)
                   Ser(T) == IF T = {} THEN <<>> ELSE LET x == CHOOSE y \in T : TRUE IN <<x>> \o Ser(T \ {x})
               IN Ser(S)

Report ==
  PrintT(<<"VERDICT", ToJson([id |-> Recs[pid].id, class |-> IF Wrong = {} THEN "agree" ELSE "mismatch",
                              rule |-> IF Wrong = {} THEN "ieee" ELSE "float-operator", wrong |-> SetToSeq(Wrong),
                              exact |-> Cardinality(Rounded(Recs[pid])), undecided |-> Cardinality(Undecided(Recs[pid]))])>>)
=============================================================================
