------------------------------ MODULE NlLexer ------------------------------
(***************************************************************************)
(* Tokenisation (property C08): the words the interpreter sees are exactly *)
(* the words written.                                                      *)
(*                                                                         *)
(* Input: a sequence of characters, each [c |-> code point, a |-> is it    *)
(* alphabetic, n |-> is it alphanumeric]  (for code points beyond ASCII    *)
(* the two flags are supplied by the recorder from the same `char`         *)
(* predicates the implementation uses -- a stated projection).             *)
(*                                                                         *)
(* Output of Lex: [toks |-> sequence of [k, txt, e], err |-> 0 | position] *)
(*   k    token kind, named as the implementation names it                 *)
(*   txt  the spelling, for identifiers, numbers and strings (for a string *)
(*        the raw characters between the quotes, escapes not yet decoded)  *)
(*   e    index (0-based, in characters) just behind the token             *)
(*   err  position of an illegal character or of an unterminated string:   *)
(*        such an input is a SyntaxError of the whole program; nothing is  *)
(*        silently dropped.                                                *)
(*                                                                         *)
(* Rules: maximal munch (two-character operators before their one-         *)
(* character prefixes); a keyword is recognised only as a whole word;      *)
(* identifiers start with a letter or '_' and continue with letters,       *)
(* digits and '_'; a number is digits with at most one '.' inside or at    *)
(* the end; `//` starts a comment to the end of the line; the eleven       *)
(* white-space code points of the implementation's own list are skipped;   *)
(* inside a string a backslash escapes the next character, whatever it is. *)
(***************************************************************************)
EXTENDS Integers, Sequences, FiniteSets

WhiteSpace == {9, 10, 11, 12, 13, 32, 133, 8206, 8207, 8232, 8233}

Cp(chars, i) == IF i < Len(chars) THEN chars[i + 1].c ELSE -1       \* 0-based; -1 at the end
IsAlpha(chars, i) == i < Len(chars) /\ (chars[i + 1].a \/ chars[i + 1].c = 95)
IsAlnum(chars, i) == i < Len(chars) /\ (chars[i + 1].n \/ chars[i + 1].c = 95)
IsDigit(chars, i) == Cp(chars, i) >= 48 /\ Cp(chars, i) <= 57

Text(chars, s, e) == [j \in 1..(e - s) |-> chars[s + j].c]

Keywords ==
  [x \in { <<97,108,115>>, <<97,110,100,101,114,115>>, <<97,110,116,119,111,111,114,100>>,
           <<102,117,110,99,116,105,101>>, <<122,111,108,97,110,103>>, <<115,116,101,108>>,
           <<106,97>>, <<110,101,101>>, <<115,116,111,112>>, <<118,111,108,103,101,110,100,101>> } |->
     CASE x = <<97,108,115>> -> "If"
       [] x = <<97,110,100,101,114,115>> -> "Else"
       [] x = <<97,110,116,119,111,111,114,100>> -> "Return"
       [] x = <<102,117,110,99,116,105,101>> -> "Func"
       [] x = <<122,111,108,97,110,103>> -> "While"
       [] x = <<115,116,101,108>> -> "Declare"
       [] x = <<106,97>> -> "True"
       [] x = <<110,101,101>> -> "False"
       [] x = <<115,116,111,112>> -> "Break"
       [] x = <<118,111,108,103,101,110,100,101>> -> "Continue"]

OneChar ==
  [c \in {59, 44, 46, 40, 41, 123, 125, 91, 93, 45, 43, 42, 94, 37, 61, 33, 60, 62, 47} |->
     CASE c = 59 -> "Semi" [] c = 44 -> "Comma" [] c = 46 -> "Dot" [] c = 40 -> "OpenParen"
       [] c = 41 -> "CloseParen" [] c = 123 -> "OpenBrace" [] c = 125 -> "CloseBrace"
       [] c = 91 -> "OpenBracket" [] c = 93 -> "CloseBracket" [] c = 45 -> "Minus" [] c = 43 -> "Plus"
       [] c = 42 -> "Star" [] c = 94 -> "Caret" [] c = 37 -> "Percent" [] c = 61 -> "Assign"
       [] c = 33 -> "Bang" [] c = 60 -> "Lt" [] c = 62 -> "Gt" [] c = 47 -> "Slash"]

(* the two-character operators: first char, second char, kind *)
TwoChar == { <<61, 61, "Eq">>, <<33, 61, "Neq">>, <<60, 61, "Lte">>, <<62, 61, "Gte">>,
             <<38, 38, "And">>, <<124, 124, "Or">> }

RECURSIVE RunEnd(_, _, _)        \* end of the maximal run from i of characters satisfying a class
RunEnd(chars, i, cls) ==
  IF (cls = "alnum" /\ IsAlnum(chars, i)) \/ (cls = "digit" /\ IsDigit(chars, i))
     \/ (cls = "notnl" /\ i < Len(chars) /\ Cp(chars, i) # 10)
  THEN RunEnd(chars, i + 1, cls) ELSE i

(* position of the closing quote of a string whose content starts at i, or -1 *)
RECURSIVE CloseQuote(_, _)
CloseQuote(chars, i) ==
  IF i >= Len(chars) THEN -1
  ELSE IF Cp(chars, i) = 92 THEN CloseQuote(chars, i + 2)      \* a backslash escapes the next character
  ELSE IF Cp(chars, i) = 34 THEN i
  ELSE CloseQuote(chars, i + 1)

Tok(k, txt, e) == [k |-> k, txt |-> txt, e |-> e]

RECURSIVE LexFrom(_, _, _)
LexFrom(chars, i, acc) ==
  LET c == Cp(chars, i) IN
  IF i >= Len(chars) THEN [toks |-> acc, err |-> 0, errat |-> 0]
  ELSE IF c \in WhiteSpace THEN LexFrom(chars, i + 1, acc)
  ELSE IF c = 47 /\ Cp(chars, i + 1) = 47 THEN LexFrom(chars, RunEnd(chars, i, "notnl"), acc)
  ELSE IF IsAlpha(chars, i) THEN
       LET e == RunEnd(chars, i, "alnum")
           w == Text(chars, i, e)
       IN IF w \in DOMAIN Keywords THEN LexFrom(chars, e, Append(acc, Tok(Keywords[w], <<>>, e)))
          ELSE LexFrom(chars, e, Append(acc, Tok("Identifier", w, e)))
  ELSE IF IsDigit(chars, i) THEN
       LET e1 == RunEnd(chars, i, "digit")
       IN IF Cp(chars, e1) = 46
          THEN LET e2 == RunEnd(chars, e1 + 1, "digit")
               IN LexFrom(chars, e2, Append(acc, Tok("Float", Text(chars, i, e2), e2)))
          ELSE LexFrom(chars, e1, Append(acc, Tok("Int", Text(chars, i, e1), e1)))
  ELSE IF c = 34 THEN
       LET q == CloseQuote(chars, i + 1)
       IN IF q < 0 THEN [toks |-> acc, err |-> 1, errat |-> i]             \* unterminated string
          ELSE LexFrom(chars, q + 1, Append(acc, Tok("String", Text(chars, i + 1, q), q + 1)))
  ELSE IF \E t \in TwoChar : t[1] = c /\ t[2] = Cp(chars, i + 1) THEN
       LET t == CHOOSE t \in TwoChar : t[1] = c /\ t[2] = Cp(chars, i + 1)
       IN LexFrom(chars, i + 2, Append(acc, Tok(t[3], <<>>, i + 2)))
  ELSE IF c \in DOMAIN OneChar THEN LexFrom(chars, i + 1, Append(acc, Tok(OneChar[c], <<>>, i + 1)))
  ELSE [toks |-> acc, err |-> 1, errat |-> i]                               \* illegal character

Lex(chars) == LexFrom(chars, 0, <<>>)

(***************************************************************************)
(* String literals: the characters written between the quotes once the     *)
(* escapes \" \\ \n \t are decoded (any other backslash pair is kept as    *)
(* written), and the inverse (how a text is written as a literal).         *)
(***************************************************************************)
RECURSIVE Decode(_, _)
Decode(raw, i) ==          \* raw: sequence of code points; i 1-based
  IF i > Len(raw) THEN <<>>
  ELSE IF raw[i] = 92 /\ i < Len(raw) THEN
       LET n == raw[i + 1] IN
       IF n = 34 THEN <<34>> \o Decode(raw, i + 2)
       ELSE IF n = 92 THEN <<92>> \o Decode(raw, i + 2)
       ELSE IF n = 110 THEN <<10>> \o Decode(raw, i + 2)
       ELSE IF n = 116 THEN <<9>> \o Decode(raw, i + 2)
       ELSE <<92, n>> \o Decode(raw, i + 2)
  ELSE <<raw[i]>> \o Decode(raw, i + 1)

RECURSIVE Encode(_, _)
Encode(s, i) ==
  IF i > Len(s) THEN <<>>
  ELSE (CASE s[i] = 34 -> <<92, 34>> [] s[i] = 92 -> <<92, 92>> [] s[i] = 10 -> <<92, 110>>
          [] s[i] = 9 -> <<92, 116>> [] OTHER -> <<s[i]>>) \o Encode(s, i + 1)
=============================================================================
