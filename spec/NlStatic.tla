----------------------------- MODULE NlStatic -----------------------------
(***************************************************************************)
(* Lexical name resolution and placement rules (property C09, DESIGN 4.2). *)
(*                                                                         *)
(* A name means the innermost enclosing declaration visible at that point: *)
(* the open block scopes of the function being defined, innermost first,   *)
(* then the open scopes of the top-level program.  Inside one scope a later*)
(* declaration of the same name takes over for the code that follows it.   *)
(* A function body does not see the locals of lexically enclosing          *)
(* functions (there are no closures) nor, of course, of its callers.       *)
(* An undeclared name is a ReferenceError of the whole program, found      *)
(* before anything runs.  `stop` / `volgende` must stand inside a loop of  *)
(* the same function body; `antwoord` inside a function.                   *)
(*                                                                         *)
(* Input: a flattened syntax tree  nodes : Seq(record), root : Seq(id).    *)
(* Output of Resolve: [bind, errs] where bind maps every identifier use,   *)
(* assignment target, `stel` statement and named function to              *)
(*   [lvl |-> "G" | "L", d |-> <<node, k>>, risky |-> BOOLEAN]             *)
(* d is the declaration key: <<n, 0>> for a `stel` / named function at     *)
(* node n, <<n, k>> for the k-th parameter of the function at node n.      *)
(* errs is the set of admissible error kinds (empty: the program is        *)
(* statically well-formed).                                                *)
(***************************************************************************)
EXTENDS Integers, Sequences, FiniteSets, TLC

BuiltinNames ==
  { <<112,114,105,110,116>>,          \* print
    <<116,121,112,101>>,              \* type
    <<98,111,111,108>>,               \* bool
    <<102,108,111,97,116>>,           \* float
    <<105,110,116>>,                  \* int
    <<115,116,114,105,110,103>>,      \* string
    <<108,101,110,103,116,101>> }     \* lengte

StaticAllKinds == {"Type", "Syntax", "Reference", "Index", "Argument"}

(* innermost-first search of one context (a sequence of scopes);           *)
(* inside a scope the LAST declaration of the name wins                    *)
RECURSIVE FindInScope(_, _, _)
FindInScope(scope, name, i) ==
  IF i = 0 THEN 0
  ELSE IF scope[i].name = name THEN i ELSE FindInScope(scope, name, i - 1)

RECURSIVE FindInCtx(_, _, _)
FindInCtx(ctx, name, si) ==
  IF si = 0 THEN [found |-> FALSE]
  ELSE LET j == FindInScope(ctx[si], name, Len(ctx[si]))
       IN IF j > 0 THEN [found |-> TRUE, d |-> ctx[si][j].d, si |-> si]
          ELSE FindInCtx(ctx, name, si - 1)

Lookup(st, name) ==
  LET nc == Len(st.ctxs)
      own == FindInCtx(st.ctxs[nc], name, Len(st.ctxs[nc]))
  IN IF own.found
     THEN [found |-> TRUE, lvl |-> IF nc = 1 THEN "G" ELSE "L", d |-> own.d, risky |-> FALSE]
     ELSE IF nc > 1
          THEN LET g == FindInCtx(st.ctxs[1], name, Len(st.ctxs[1]))
               IN IF g.found
                  \* a global declared in an inner block, named from a function body: the function
                  \* value may outlive the block (no closures, U6)
                  THEN [found |-> TRUE, lvl |-> "G", d |-> g.d, risky |-> g.si > 1]
                  ELSE [found |-> FALSE]
          ELSE [found |-> FALSE]

Define(st, name, d) ==
  LET nc == Len(st.ctxs)
      ns == Len(st.ctxs[nc])
  IN [st EXCEPT !.ctxs[nc][ns] = Append(@, [name |-> name, d |-> d])]

Bind(st, n, r) == [st EXCEPT !.bind = (n :> [lvl |-> r.lvl, d |-> r.d, risky |-> r.risky]) @@ @]
AddErr(st, ks) == [st EXCEPT !.errs = @ \cup ks]

EnterScope(st) == LET nc == Len(st.ctxs) IN [st EXCEPT !.ctxs[nc] = Append(@, <<>>)]
LeaveScope(st) == LET nc == Len(st.ctxs) IN [st EXCEPT !.ctxs[nc] = SubSeq(@, 1, Len(@) - 1)]

CurLvl(st) == IF Len(st.ctxs) = 1 THEN "G" ELSE "L"

(* TLC passes operator arguments lazily: a state threaded through a long chain of   *)
(* calls would only be evaluated at the very end, by a recursion as deep as the     *)
(* program is long.  Then() forces the intermediate state before continuing.        *)
Then(s, F(_)) == IF DOMAIN s = {} THEN s ELSE F(s)

RECURSIVE RE(_, _, _)
RECURSIVE RS(_, _, _)
RECURSIVE RList(_, _, _, _, _)
RECURSIVE RBlock(_, _, _)
RECURSIVE DefParams(_, _, _, _)

(* fold over a list of node ids; stmt selects RS or RE *)
RList(nodes, ids, i, st, stmt) ==
  IF i > Len(ids) THEN st
  ELSE Then(IF stmt THEN RS(nodes, ids[i], st) ELSE RE(nodes, ids[i], st),
            LAMBDA s2 : RList(nodes, ids, i + 1, s2, stmt))

RBlock(nodes, ids, st) ==
  IF ids = <<>> THEN st
  ELSE Then(RList(nodes, ids, 1, EnterScope(st), TRUE), LAMBDA s2 : LeaveScope(s2))

DefParams(st, n, params, k) ==
  IF k > Len(params) THEN st
  ELSE Then(Define(st, params[k], <<n, k>>), LAMBDA s2 : DefParams(s2, n, params, k + 1))

RE(nodes, n, st) ==
  LET nd == nodes[n] IN
  CASE nd.k \in {"Int", "Float", "Bool", "Str"} -> st
    [] nd.k = "Ident" ->
         LET r == Lookup(st, nd.name)
         IN IF r.found THEN Bind(st, n, r) ELSE AddErr(st, {"Reference"})
    [] nd.k = "Prefix" -> RE(nodes, nd.r, st)
    [] nd.k = "Infix" -> Then(RE(nodes, nd.l, st), LAMBDA s1 : RE(nodes, nd.r, s1))
    [] nd.k = "If" ->
         Then(RE(nodes, nd.c, st), LAMBDA s1 :
           Then(RBlock(nodes, nd.th, s1), LAMBDA s2 : RBlock(nodes, nd.el, s2)))
    [] nd.k = "While" ->
         LET nc == Len(st.ctxs)
             s1 == [st EXCEPT !.loops[nc] = @ + 1]
         IN Then(RE(nodes, nd.c, s1), LAMBDA s2 :
              Then(RBlock(nodes, nd.body, s2), LAMBDA s3 : [s3 EXCEPT !.loops[nc] = @ - 1]))
    [] nd.k = "Func" ->
         LET named == nd.name # <<>>
             s0 == IF named
                   THEN Bind(Define(st, nd.name, <<n, 0>>), n,
                             [lvl |-> CurLvl(st), d |-> <<n, 0>>, risky |-> FALSE])
                   ELSE st
             inLoop == s0.loops[Len(s0.loops)] > 0 \/ s0.fnInLoop[Len(s0.fnInLoop)]
             s1 == [s0 EXCEPT !.ctxs = Append(@, << <<>> >>),
                              !.loops = Append(@, 0),
                              !.fnInLoop = Append(@, inLoop)]
         IN Then(DefParams(s1, n, nd.params, 1), LAMBDA s2 :
              Then(RBlock(nodes, nd.body, s2), LAMBDA s3 :
                [s3 EXCEPT !.ctxs = SubSeq(@, 1, Len(@) - 1),
                           !.loops = SubSeq(@, 1, Len(@) - 1),
                           !.fnInLoop = SubSeq(@, 1, Len(@) - 1)]))
    [] nd.k = "Call" ->
         LET f == nodes[nd.f]
         IN Then(RList(nodes, nd.args, 1, st, FALSE), LAMBDA s1 :
              IF f.k = "Ident" /\ f.name \in BuiltinNames THEN s1 ELSE RE(nodes, nd.f, s1))
    [] nd.k = "Assign" ->
         LET l == nodes[nd.l] IN
         CASE l.k = "Ident" ->
                LET r == Lookup(st, l.name)
                IN IF r.found THEN RE(nodes, nd.r, Bind(st, nd.l, r))
                   ELSE AddErr(st, {"Reference"})
           [] l.k = "Index" ->
                Then(RE(nodes, l.l, st), LAMBDA s1 :
                  Then(RE(nodes, l.i, s1), LAMBDA s2 : RE(nodes, nd.r, s2)))
           [] OTHER -> AddErr(st, {"Type", "Syntax"})
    [] nd.k = "Array" -> RList(nodes, nd.vals, 1, st, FALSE)
    [] nd.k = "Index" -> Then(RE(nodes, nd.l, st), LAMBDA s1 : RE(nodes, nd.i, s1))

RS(nodes, n, st) ==
  LET nd == nodes[n] IN
  CASE nd.k = "Let" ->
         \* the name exists from its own initialiser on (reading it there is U5, decided at run time)
         LET s1 == Bind(Define(st, nd.name, <<n, 0>>), n,
                        [lvl |-> CurLvl(st), d |-> <<n, 0>>, risky |-> FALSE])
         IN Then(s1, LAMBDA s2 : RE(nodes, nd.e, s2))
    [] nd.k = "Return" ->
         RE(nodes, nd.e, IF Len(st.ctxs) = 1 THEN AddErr(st, StaticAllKinds) ELSE st)
    [] nd.k = "Expr" -> RE(nodes, nd.e, st)
    [] nd.k = "Block" -> RBlock(nodes, nd.body, st)
    [] nd.k \in {"Break", "Continue"} ->
         IF st.loops[Len(st.loops)] > 0 THEN st
         ELSE IF st.fnInLoop[Len(st.fnInLoop)] THEN AddErr(st, StaticAllKinds)   \* U8
         ELSE AddErr(st, {"Syntax"})

EmptyBind == [x \in {} |-> 0]

Resolve(nodes, root) ==
  LET st0 == [ctxs |-> << << <<>> >> >>, bind |-> EmptyBind, errs |-> {},
              loops |-> <<0>>, fnInLoop |-> <<FALSE>>]
      st == RList(nodes, root, 1, st0, TRUE)
  IN [bind |-> st.bind, errs |-> st.errs]

(* Resolution continued over the lines of a retained session (C17): the    *)
(* top-level scope persists from line to line.                             *)
ResolveFrom(nodes, root, ctxs) ==
  LET st0 == [ctxs |-> ctxs, bind |-> EmptyBind, errs |-> {},
              loops |-> <<0>>, fnInLoop |-> <<FALSE>>]
      st == RList(nodes, root, 1, st0, TRUE)
  IN [bind |-> st.bind, errs |-> st.errs, ctxs |-> st.ctxs]
=============================================================================
