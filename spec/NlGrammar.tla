----------------------------- MODULE NlGrammar -----------------------------
(***************************************************************************)
(* The concrete syntax of expressions and statements (property C07):       *)
(* the documented precedence table, the printed form of a tree with        *)
(* minimal parentheses (Unparse), families of trees that are enumerated    *)
(* completely, and structural equality of trees.                           *)
(*                                                                         *)
(* Trees are nested records:                                               *)
(*   expressions  [k|->"Int",v] [k|->"Bool",v] [k|->"Ident",name]          *)
(*                [k|->"Str",cp] [k|->"Infix",op,l,r] [k|->"Prefix",op,r]  *)
(*                [k|->"Call",f,args] [k|->"Index",l,i] [k|->"Assign",l,r] *)
(*                [k|->"Array",vals] [k|->"If",c,th,hasel,el]              *)
(*                [k|->"While",c,body] [k|->"Func",name,params,body]       *)
(*   statements   [k|->"Expr",e] [k|->"Let",name,e] [k|->"Return",e]       *)
(*                [k|->"Block",body] [k|->"Break"] [k|->"Continue"]        *)
(*                                                                         *)
(* Binding powers (higher binds tighter), as documented:                   *)
(*     =  <  && ||  <  == !=  <  < <= > >=  <  + -  <  * / %  < call/index *)
(* binary operators associate to the left; a prefix `-` takes an operand   *)
(* at the level above + and - (so -a*b is -(a*b)) and a prefix `!` takes   *)
(* everything that follows (so !a == b is !(a == b)): the grammar as the   *)
(* interpreter has it, which no document contradicts.                      *)
(*                                                                         *)
(* Unparse yields a sequence of token spellings (strings); how they are    *)
(* separated is the business of the layout (spaces, tabs, new lines,       *)
(* comments, redundant parentheses, optional `;` and `,`).                 *)
(***************************************************************************)
EXTENDS Integers, Sequences, FiniteSets, TLC

BinOps == <<"*", "/", "%", "+", "-", "<", "<=", ">", ">=", "==", "!=", "&&", "||">>
BinOpSet == {BinOps[i] : i \in 1..Len(BinOps)}

Prec(op) ==
  CASE op = "=" -> 1
    [] op \in {"&&", "||"} -> 2
    [] op \in {"==", "!="} -> 3
    [] op \in {"<", "<=", ">", ">="} -> 4
    [] op \in {"+", "-"} -> 5
    [] op \in {"*", "/", "%"} -> 6

MkInt(n)        == [k |-> "Int", v |-> n]
Ident(s)      == [k |-> "Ident", name |-> s]
Infix(o, l, r) == [k |-> "Infix", op |-> o, l |-> l, r |-> r]
Prefix(o, r)  == [k |-> "Prefix", op |-> o, r |-> r]

RECURSIVE Join(_, _)
Join(seqs, sep) ==          \* concatenate token lists with a separator token between them
  IF seqs = <<>> THEN <<>>
  ELSE IF Len(seqs) = 1 THEN seqs[1]
  ELSE seqs[1] \o <<sep>> \o Join(Tail(seqs), sep)

RECURSIVE NatText(_)
Digit(d) == CASE d = 0 -> "0" [] d = 1 -> "1" [] d = 2 -> "2" [] d = 3 -> "3" [] d = 4 -> "4"
              [] d = 5 -> "5" [] d = 6 -> "6" [] d = 7 -> "7" [] d = 8 -> "8" [] d = 9 -> "9"
NatText(n) == IF n < 10 THEN <<Digit(n)>> ELSE NatText(n \div 10) \o <<Digit(n % 10)>>

(* Does the printed form of e, standing as the LEFT operand of an operator, or before a   *)
(* postfix ( or [, need parentheses although its own precedence would allow it bare?      *)
(* A prefix operator swallows what follows it, so it can not stand bare on the left.      *)
SwallowsRight(e) == e.k \in {"Prefix", "Assign", "If", "While", "Func"}

RECURSIVE UnE(_, _)
RECURSIVE UnS(_)
RECURSIVE UnBlock(_)
RECURSIVE UnList(_, _)

Paren(t) == <<"(">> \o t \o <<")">>

(* tokens of expression e in a context that requires binding power > min;                 *)
(* min = 0: statement, argument, initialiser, subscript; left operand: Prec(op) - 1;      *)
(* right operand: Prec(op); operand of prefix `-`: 5; callee / indexed: 9                 *)
UnE(e, min) ==
  LET bare ==
    CASE e.k = "Int" -> <<"#int", e.v>>          \* a literal token: marker + value, rendered by the layout
      [] e.k = "Bool" -> <<IF e.v THEN "ja" ELSE "nee">>
      [] e.k = "Ident" -> <<"#id", e.name>>
      [] e.k = "Str" -> <<"#str", e.cp>>
      [] e.k = "Infix" -> UnE(e.l, Prec(e.op) - 1) \o <<e.op>> \o UnE(e.r, Prec(e.op))
      [] e.k = "Prefix" -> <<e.op>> \o UnE(e.r, IF e.op = "-" THEN 5 ELSE 0)
      [] e.k = "Call" -> UnE(e.f, 9) \o <<"(">> \o UnList(e.args, ",") \o <<")">>
      [] e.k = "Index" -> UnE(e.l, 9) \o <<"[">> \o UnE(e.i, 0) \o <<"]">>
      [] e.k = "Assign" -> UnE(e.l, 9) \o <<"=">> \o UnE(e.r, 1)
      [] e.k = "Array" -> <<"[">> \o UnList(e.vals, ",") \o <<"]">>
      [] e.k = "If" -> <<"als">> \o UnE(e.c, 1) \o UnBlock(e.th)
                       \o (IF ~e.hasel THEN <<>>
                           ELSE IF Len(e.el) = 1 /\ e.el[1].k = "Expr" /\ e.el[1].e.k = "If"
                                THEN <<"anders">> \o UnE(e.el[1].e, 0)         \* anders als ...
                                ELSE <<"anders">> \o UnBlock(e.el))
      [] e.k = "While" -> <<"zolang">> \o UnE(e.c, 1) \o UnBlock(e.body)
      [] e.k = "Func" -> <<"functie">> \o (IF e.name = "" THEN <<>> ELSE <<"#id", e.name>>)
                         \o <<"(">> \o Join([i \in 1..Len(e.params) |-> <<"#id", e.params[i]>>], ",") \o <<")">>
                         \o UnBlock(e.body)
      needs ==
        \/ (e.k = "Infix" /\ Prec(e.op) <= min)
        \/ (e.k \in {"Prefix", "Assign", "If", "While", "Func"} /\ min > 0)
  IN IF needs THEN Paren(bare) ELSE bare

UnList(es, sep) == Join([i \in 1..Len(es) |-> UnE(es[i], 0)], sep)

UnS(s) ==
  CASE s.k = "Expr" -> UnE(s.e, 0) \o <<";">>
    [] s.k = "Let" -> <<"stel", "#id", s.name, "=">> \o UnE(s.e, 0) \o <<";">>
    [] s.k = "Return" -> <<"antwoord">> \o UnE(s.e, 0) \o <<";">>
    [] s.k = "Block" -> UnBlock(s.body)
    [] s.k = "Break" -> <<"stop", ";">>
    [] s.k = "Continue" -> <<"volgende", ";">>

RECURSIVE UnStmts(_)
UnStmts(ss) == IF ss = <<>> THEN <<>> ELSE UnS(ss[1]) \o UnStmts(Tail(ss))
UnBlock(ss) == <<"{">> \o UnStmts(ss) \o <<"}">>

Unparse(prog) == UnStmts(prog)

(***************************************************************************)
(* Structural equality of trees (never compares across kinds)              *)
(***************************************************************************)
RECURSIVE TEq(_, _)
RECURSIVE TEqSeq(_, _)
TEqSeq(a, b) == Len(a) = Len(b) /\ \A i \in 1..Len(a) : TEq(a[i], b[i])
TEq(a, b) ==
  /\ a.k = b.k
  /\ CASE a.k = "Bool" -> a.v = b.v
       \* an integer literal carries its value (families) or its spelling as handed to the parser (round trip)
       [] a.k = "Int" -> (IF "v" \in DOMAIN a THEN a.v ELSE a.digits) = (IF "v" \in DOMAIN b THEN b.v ELSE b.digits)
       [] a.k = "Ident" -> a.name = b.name
       [] a.k = "Str" -> a.cp = b.cp
       [] a.k = "Float" -> a.bits = b.bits
       [] a.k = "Infix" -> a.op = b.op /\ TEq(a.l, b.l) /\ TEq(a.r, b.r)
       [] a.k = "Prefix" -> a.op = b.op /\ TEq(a.r, b.r)
       [] a.k = "Call" -> TEq(a.f, b.f) /\ TEqSeq(a.args, b.args)
       [] a.k = "Index" -> TEq(a.l, b.l) /\ TEq(a.i, b.i)
       [] a.k = "Assign" -> TEq(a.l, b.l) /\ TEq(a.r, b.r)
       [] a.k = "Array" -> TEqSeq(a.vals, b.vals)
       [] a.k = "If" -> TEq(a.c, b.c) /\ TEqSeq(a.th, b.th) /\ a.hasel = b.hasel /\ TEqSeq(a.el, b.el)
       [] a.k = "While" -> TEq(a.c, b.c) /\ TEqSeq(a.body, b.body)
       [] a.k = "Func" -> a.name = b.name /\ a.params = b.params /\ TEqSeq(a.body, b.body)
       [] a.k \in {"Expr", "Return"} -> TEq(a.e, b.e)
       [] a.k = "Let" -> a.name = b.name /\ TEq(a.e, b.e)
       [] a.k = "Block" -> TEqSeq(a.body, b.body)
       [] OTHER -> TRUE

(***************************************************************************)
(* Families of trees, enumerated completely                                *)
(***************************************************************************)
A == Ident("a")  B == Ident("b")  C == Ident("c")  D == Ident("d")

(* every ordered pair of binary operators in both nestings *)
PairTrees ==
  {Infix(o1, Infix(o2, A, B), C) : o1 \in BinOpSet, o2 \in BinOpSet}
  \cup {Infix(o1, A, Infix(o2, B, C)) : o1 \in BinOpSet, o2 \in BinOpSet}

(* every triple of binary operators in the five shapes of three binary nodes *)
TripleTrees ==
  UNION {
    { Infix(o1, Infix(o2, Infix(o3, A, B), C), D),
      Infix(o1, Infix(o2, A, Infix(o3, B, C)), D),
      Infix(o1, Infix(o2, A, B), Infix(o3, C, D)),
      Infix(o1, A, Infix(o2, Infix(o3, B, C), D)),
      Infix(o1, A, Infix(o2, B, Infix(o3, C, D))) }
    : o1 \in BinOpSet, o2 \in BinOpSet, o3 \in BinOpSet }

(* prefix operators, calls and indexing against every binary operator *)
Call1(f, x)  == [k |-> "Call", f |-> f, args |-> <<x>>]
Index1(l, i) == [k |-> "Index", l |-> l, i |-> i]
Assign(l, r) == [k |-> "Assign", l |-> l, r |-> r]
MixedTrees ==
  UNION {
    { Infix(o, Prefix(p, A), B), Infix(o, A, Prefix(p, B)), Prefix(p, Infix(o, A, B)),
      Prefix(p, Prefix(p, A)),
      Infix(o, Call1(A, B), C), Infix(o, A, Call1(B, C)), Call1(A, Infix(o, B, C)),
      Infix(o, Index1(A, B), C), Infix(o, A, Index1(B, C)), Index1(A, Infix(o, B, C)),
      Prefix(p, Call1(A, B)), Prefix(p, Index1(A, B)),
      Assign(A, Infix(o, B, C)), Infix(o, A, Assign(B, C)), Assign(Index1(A, B), Infix(o, B, C)),
      Assign(A, Assign(B, C)) }
    : o \in BinOpSet, p \in {"-", "!"} }

(* ---- whole programs: where one statement ends and the next begins ---------------------------- *)
ES(e) == [k |-> "Expr", e |-> e]
If3(withElse) ==          \* als a {1} anders als b {2} anders als c {3} [anders {4}]
  [k |-> "If", c |-> A, th |-> <<ES(MkInt(1))>>, hasel |-> TRUE,
   el |-> <<ES([k |-> "If", c |-> B, th |-> <<ES(MkInt(2))>>, hasel |-> TRUE,
                el |-> <<ES([k |-> "If", c |-> C, th |-> <<ES(MkInt(3))>>, hasel |-> withElse,
                             el |-> IF withElse THEN <<ES(MkInt(4))>> ELSE <<>>])>>])>>]
Nested(innerElse, outerElse) ==      \* als a { als b {1} [anders {2}] } [anders {3}]   (no dangling else)
  [k |-> "If", c |-> A,
   th |-> <<ES([k |-> "If", c |-> B, th |-> <<ES(MkInt(1))>>, hasel |-> innerElse,
                el |-> IF innerElse THEN <<ES(MkInt(2))>> ELSE <<>>])>>,
   hasel |-> outerElse, el |-> IF outerElse THEN <<ES(MkInt(3))>> ELSE <<>>]
Firsts ==
  { ES(A), [k |-> "Let", name |-> "x", e |-> A], ES(Call1(A, B)), ES(Index1(A, B)), ES([k |-> "Array", vals |-> <<A>>]),
    ES([k |-> "If", c |-> A, th |-> <<ES(MkInt(1))>>, hasel |-> FALSE, el |-> <<>>]),
    ES([k |-> "If", c |-> A, th |-> <<ES(MkInt(1))>>, hasel |-> TRUE, el |-> <<ES(MkInt(2))>>]),
    ES([k |-> "If", c |-> A, th |-> <<>>, hasel |-> TRUE, el |-> <<>>]),
    ES([k |-> "While", c |-> A, body |-> <<[k |-> "Break"]>>]),
    ES([k |-> "While", c |-> A, body |-> <<>>]),
    ES([k |-> "Func", name |-> "f", params |-> <<>>, body |-> <<ES(MkInt(1))>>]),
    ES([k |-> "Func", name |-> "f", params |-> <<"p", "q">>, body |-> <<>>]),
    [k |-> "Block", body |-> <<ES(MkInt(1))>>], [k |-> "Block", body |-> <<>>],
    [k |-> "Let", name |-> "x", e |-> [k |-> "If", c |-> A, th |-> <<ES(MkInt(1))>>, hasel |-> TRUE, el |-> <<ES(MkInt(2))>>]],
    [k |-> "Let", name |-> "g", e |-> [k |-> "Func", name |-> "", params |-> <<"p">>, body |-> <<ES(Ident("p"))>>]],
    \* a function literal called on the spot, at the start of a statement
    ES(Call1([k |-> "Func", name |-> "f", params |-> <<"p">>, body |-> <<ES(Ident("p"))>>], A)),
    ES(Infix("+", Call1([k |-> "Func", name |-> "f", params |-> <<"p">>, body |-> <<ES(Ident("p"))>>], A), B)) }
  \cup {ES(If3(w)) : w \in BOOLEAN}
  \cup {ES(Nested(i, o)) : i, o \in BOOLEAN}
Seconds ==
  { ES(B), ES(Prefix("-", B)), ES(Prefix("!", B)), ES([k |-> "Array", vals |-> <<B>>]),
    ES(Index1([k |-> "Array", vals |-> <<B>>], C)), ES(Call1(B, C)), [k |-> "Let", name |-> "y", e |-> Prefix("-", B)],
    ES(Assign(B, C)), ES([k |-> "If", c |-> B, th |-> <<ES(MkInt(5))>>, hasel |-> FALSE, el |-> <<>>]),
    [k |-> "Block", body |-> <<ES(B)>>] }
StmtProgs == {<<s1, s2>> : s1 \in Firsts, s2 \in Seconds} \cup {<<s1>> : s1 \in Firsts}

=============================================================================
