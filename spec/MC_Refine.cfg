INIT RefInit
NEXT RefNext
INVARIANT RefReport
CHECK_DEADLOCK FALSE
