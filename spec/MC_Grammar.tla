----------------------------- MODULE MC_Grammar -----------------------------
(* Enumerates the tree families of NlGrammar and prints, per tree, the tree and its printed  *)
(* form (specification -> implementation vectors for C07).  FAMILY selects the family.       *)
EXTENDS NlGrammar, Json, IOUtils

VARIABLE t

Family == IF "FAMILY" \in DOMAIN IOEnv THEN IOEnv.FAMILY ELSE "pairs"

ElseIf(c1, c2, withElse) ==
  [k |-> "If", c |-> c1, th |-> <<[k |-> "Expr", e |-> MkInt(1)]>>, hasel |-> TRUE,
   el |-> <<[k |-> "Expr", e |-> [k |-> "If", c |-> c2, th |-> <<[k |-> "Expr", e |-> MkInt(2)]>>,
                                 hasel |-> withElse,
                                 el |-> IF withElse THEN <<[k |-> "Expr", e |-> MkInt(3)]>> ELSE <<>>]]>>]

StmtTrees ==
  \* op-assignment: a op= e  means  a = a op (e), for every operator and operands of lower precedence
  {Assign(A, Infix(o, A, e)) : o \in {"+", "-", "*", "/", "%"},
                               e \in {B, Infix("+", B, C), Infix("<", B, C), Infix("||", B, C), Prefix("-", B)}}
  \cup {ElseIf(A, B, w) : w \in BOOLEAN}
  \cup {[k |-> "If", c |-> Infix(o, A, B), th |-> <<>>, hasel |-> FALSE, el |-> <<>>] : o \in BinOpSet}
  \cup {[k |-> "While", c |-> Infix(o, A, B), body |-> <<[k |-> "Break"], [k |-> "Continue"]>>] : o \in BinOpSet}

Trees == CASE Family = "pairs" -> PairTrees \cup MixedTrees \cup StmtTrees
           [] Family = "triples" -> TripleTrees
           [] OTHER -> PairTrees

(* the op-assignment spelling: `a op= e` denotes a = a op (e), with e extending as far as possible *)
OpAssignForms ==
  {[tree |-> Assign(A, Infix(o, A, e)), toks |-> <<"#id", "a", o, "=">> \o UnE(e, 0) \o <<";">>] :
     o \in BinOpSet,
     e \in {B, Infix("+", B, C), Infix("*", B, C), Infix("-", B, C), Infix("<", B, C), Infix("==", B, C),
            Infix("||", B, C), Prefix("-", B), Infix("+", Infix("*", B, C), D), Call1(B, C)}}

Init == \/ (Family \notin {"opassign", "statements"} /\ t \in Trees)
        \/ (Family = "opassign" /\ t \in OpAssignForms)
        \/ (Family = "statements" /\ t \in StmtProgs)
Next == UNCHANGED t

Prog == IF Family = "statements" THEN t ELSE <<[k |-> "Expr", e |-> IF Family = "opassign" THEN t.tree ELSE t]>>
PrintVec == PrintT(<<"VEC", ToJson([tree |-> Prog, toks |-> IF Family = "opassign" THEN t.toks ELSE Unparse(Prog)])>>)
=============================================================================
