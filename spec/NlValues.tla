----------------------------- MODULE NlValues -----------------------------
(***************************************************************************)
(* The value universe of Nederlang and the meaning of its operators and    *)
(* builtins, written from the README, the maintainers' test expectations   *)
(* and the property statements C06 / C13 / C14 -- not from the compiler.   *)
(*                                                                         *)
(* Values                                                                  *)
(*   [t |-> "N"]                      null                                 *)
(*   [t |-> "B", v |-> BOOLEAN]       ja / nee                             *)
(*   [t |-> "I", v |-> Int]           integer, |v| < Small (see below)     *)
(*   [t |-> "F", m |-> Int, e |-> Nat] the float m / 2^e, normalised       *)
(*   [t |-> "S", r |-> Nat]           reference to a heap string           *)
(*   [t |-> "A", r |-> Nat]           reference to a heap array            *)
(*   [t |-> "Fn", d |-> Nat]          the function defined at tree node d  *)
(*                                                                         *)
(* A heap is a sequence of cells [k |-> "S"|"A", items |-> Seq, lit |-> Nat]*)
(* Strings are sequences of code points.                                   *)
(*                                                                         *)
(* Results of operators are three-valued (DESIGN.md 3.5):                  *)
(*   [k |-> "V", v |-> value]          the documented value                *)
(*   [k |-> "E", s |-> set of kinds]   an error whose kind is in s         *)
(*   [k |-> "DK", why |-> STRING]      the documentation does not decide   *)
(*                                                                         *)
(* TLC integers are 32 bit.  This module is exact on |v| < Small = 2^29    *)
(* and answers DK beyond; the full 61-bit range is the business of NlBig   *)
(* (property C06).  Floats are exact on dyadic rationals with a small      *)
(* mantissa and answer DK when a result needs rounding (U9).               *)
(***************************************************************************)
EXTENDS Integers, Sequences, FiniteSets

Small == 536870912          \* 2^29

AllKinds == {"Type", "Syntax", "Reference", "Index", "Argument"}

V(v)   == [k |-> "V", v |-> v]
E(s)   == [k |-> "E", s |-> s]
DK(w)  == [k |-> "DK", why |-> w]

Null      == [t |-> "N"]
BoolV(b)  == [t |-> "B", v |-> b]
IntV(n)   == [t |-> "I", v |-> n]
StrV(r)   == [t |-> "S", r |-> r]
ArrV(r)   == [t |-> "A", r |-> r]
FnV(d)    == [t |-> "Fn", d |-> d]

Abs(n)  == IF n < 0 THEN -n ELSE n
Sgn(n)  == IF n < 0 THEN -1 ELSE IF n > 0 THEN 1 ELSE 0
Min2(a, b) == IF a < b THEN a ELSE b
Max2(a, b) == IF a > b THEN a ELSE b

(* Division truncating toward zero, and its remainder (sign of the dividend) *)
TDiv(a, b) == Sgn(a) * Sgn(b) * (Abs(a) \div Abs(b))
TRem(a, b) == a - b * TDiv(a, b)

RECURSIVE Pow2(_)
Pow2(n) == IF n = 0 THEN 1 ELSE 2 * Pow2(n - 1)
RECURSIVE Pow(_, _)
Pow(b, n) == IF n = 0 THEN 1 ELSE b * Pow(b, n - 1)

(***************************************************************************)
(* Integers                                                                *)
(***************************************************************************)
IntRes(n) == IF Abs(n) < Small THEN V(IntV(n)) ELSE DK("int-range")

MulFits(a, b) == a = 0 \/ b = 0 \/ Abs(a) <= (Small \div Abs(b))

IntArith(op, a, b) ==
  CASE op = "+" -> IntRes(a + b)
    [] op = "-" -> IntRes(a - b)
    [] op = "*" -> IF MulFits(a, b) THEN IntRes(a * b) ELSE DK("int-range")
    [] op = "/" -> IF b = 0 THEN E(AllKinds) ELSE IntRes(TDiv(a, b))
    [] op = "%" -> IF b = 0 THEN E(AllKinds) ELSE IntRes(TRem(a, b))

CmpRes(op, c) ==      \* c = -1, 0, 1
  CASE op = "<"  -> c < 0
    [] op = "<=" -> c <= 0
    [] op = ">"  -> c > 0
    [] op = ">=" -> c >= 0
    [] op = "==" -> c = 0
    [] op = "!=" -> c # 0

IntCmp(a, b) == IF a < b THEN -1 ELSE IF a > b THEN 1 ELSE 0

(***************************************************************************)
(* Floats: m / 2^e with m odd or e = 0.  MaxE bounds the exponent so that  *)
(* decimal expansion stays inside 32 bits.                                 *)
(***************************************************************************)
MaxE == 6
MaxM == 4194304      \* 2^22

RECURSIVE NormF(_, _)
NormF(m, e) == IF e > 0 /\ m % 2 = 0 THEN NormF(m \div 2, e - 1) ELSE [m |-> m, e |-> e]

FltV(m, e) == LET n == NormF(m, e) IN [t |-> "F", m |-> n.m, e |-> n.e]

FltRes(m, e) ==
  LET n == NormF(m, e)
  IN IF Abs(n.m) < MaxM /\ n.e <= MaxE THEN V([t |-> "F", m |-> n.m, e |-> n.e])
     ELSE DK("float-range")

(* numerators over the common denominator 2^Max(ea,eb) *)
FAlign(a, b) ==
  LET e == Max2(a.e, b.e)
  IN [x |-> a.m * Pow2(e - a.e), y |-> b.m * Pow2(e - b.e), e |-> e]

FltArith(op, a, b) ==
  LET al == FAlign(a, b)
  IN CASE op = "+" -> FltRes(al.x + al.y, al.e)
       [] op = "-" -> FltRes(al.x - al.y, al.e)
       [] op = "*" -> IF (a.m = 0 \/ b.m = 0)
                      THEN (IF a.m < 0 \/ b.m < 0 THEN DK("float-negzero") ELSE FltRes(0, 0))
                      ELSE IF ~MulFits(a.m, b.m) THEN DK("float-range")
                      ELSE FltRes(a.m * b.m, a.e + b.e)
       [] op = "/" -> IF b.m = 0 THEN DK("float-nonfinite")
                      ELSE IF a.m = 0 THEN (IF b.m < 0 THEN DK("float-negzero") ELSE FltRes(0, 0))
                      ELSE \* (x/2^e)/(y/2^e) = x/y ; exact iff y | x * 2^j for some small j
                           LET x == al.x  y == al.y
                               js == {j \in 0..MaxE : Abs(x) <= (Small \div Pow2(j))
                                                      /\ (Abs(x) * Pow2(j)) % Abs(y) = 0}
                           IN IF js = {} THEN DK("float-inexact")
                              ELSE LET j == CHOOSE i \in js : \A i2 \in js : i <= i2
                                   IN FltRes(TDiv(x * Pow2(j), y), j)
       [] op = "%" -> IF b.m = 0 THEN DK("float-nonfinite")
                      ELSE LET r == TRem(al.x, al.y)
                           IN IF r = 0 /\ a.m < 0 THEN DK("float-negzero") ELSE FltRes(r, al.e)

FltCmp(a, b) == LET al == FAlign(a, b) IN IntCmp(al.x, al.y)

(***************************************************************************)
(* Strings (sequences of code points): lexicographic order                 *)
(***************************************************************************)
RECURSIVE SeqCmp(_, _, _)
SeqCmp(s, u, i) ==
  IF i > Len(s) /\ i > Len(u) THEN 0
  ELSE IF i > Len(s) THEN -1
  ELSE IF i > Len(u) THEN 1
  ELSE IF s[i] < u[i] THEN -1
  ELSE IF s[i] > u[i] THEN 1
  ELSE SeqCmp(s, u, i + 1)

(***************************************************************************)
(* Binary operators.  h is the heap (needed for strings).                  *)
(***************************************************************************)
ArithOps == {"+", "-", "*", "/", "%"}
OrdOps   == {"<", "<=", ">", ">="}
EqOps    == {"==", "!="}
LogOps   == {"&&", "||"}

BinOp(op, a, b, h) ==
  IF op \in LogOps THEN
       IF a.t = "B" /\ b.t = "B"
       THEN V(BoolV(IF op = "&&" THEN a.v /\ b.v ELSE a.v \/ b.v))
       ELSE E({"Type"})
  ELSE IF a.t # b.t THEN E({"Type"})
  ELSE IF op \in ArithOps THEN
       CASE a.t = "I" -> IntArith(op, a.v, b.v)
         [] a.t = "F" -> FltArith(op, a, b)
         [] OTHER -> E({"Type"})
  ELSE IF op \in OrdOps THEN
       CASE a.t = "I" -> V(BoolV(CmpRes(op, IntCmp(a.v, b.v))))
         [] a.t = "F" -> V(BoolV(CmpRes(op, FltCmp(a, b))))
         [] a.t = "S" -> V(BoolV(CmpRes(op, SeqCmp(h[a.r].items, h[b.r].items, 1))))
         [] OTHER -> DK("U10")
  ELSE \* EqOps
       CASE a.t = "N" -> V(BoolV(op = "=="))
         [] a.t = "B" -> V(BoolV(CmpRes(op, IF a.v = b.v THEN 0 ELSE 1)))
         [] a.t = "I" -> V(BoolV(CmpRes(op, IntCmp(a.v, b.v))))
         [] a.t = "F" -> V(BoolV(CmpRes(op, FltCmp(a, b))))
         [] a.t = "S" -> V(BoolV(CmpRes(op, SeqCmp(h[a.r].items, h[b.r].items, 1))))
         [] a.t = "Fn" -> V(BoolV(CmpRes(op, IF a.d = b.d THEN 0 ELSE 1)))
         [] OTHER -> DK("U10")

UnOp(op, a) ==
  IF op = "!" THEN (IF a.t = "B" THEN V(BoolV(~a.v)) ELSE E({"Type"}))
  ELSE \* "-" (the parser's prefix minus) and "neg"
       CASE a.t = "I" -> IntRes(-a.v)
         [] a.t = "F" -> IF a.m = 0 THEN DK("float-negzero") ELSE V([a EXCEPT !.m = -a.m])
         [] OTHER -> E({"Type"})

(***************************************************************************)
(* Text                                                                    *)
(***************************************************************************)
RECURSIVE NatDigits(_)
NatDigits(n) == IF n < 10 THEN <<48 + n>> ELSE Append(NatDigits(n \div 10), 48 + (n % 10))

IntText(n) == IF n < 0 THEN <<45>> \o NatDigits(-n) ELSE NatDigits(n)

RECURSIVE PadDigits(_, _)
PadDigits(n, w) == IF w = 0 THEN <<>> ELSE Append(PadDigits(n \div 10, w - 1), 48 + (n % 10))

(* Decimal spelling of the float m/2^e: exact, no trailing zeros, no ".0"  *)
(* (this is the shortest spelling that reads back as the same float        *)
(* whenever it has at most 15 significant digits, which MaxM/MaxE ensure). *)
FltText(f) ==
  LET a == Abs(f.m)
      ip == a \div Pow2(f.e)
      fr == a % Pow2(f.e)
      sign == IF f.m < 0 THEN <<45>> ELSE <<>>
  IN IF f.e = 0 THEN sign \o NatDigits(ip)
     ELSE sign \o NatDigits(ip) \o <<46>> \o PadDigits(fr * Pow(5, f.e), f.e)

T_null    == <<110, 117, 108, 108>>
T_bool    == <<98, 111, 111, 108>>
T_float   == <<102, 108, 111, 97, 116>>
T_int     == <<105, 110, 116>>
T_string  == <<115, 116, 114, 105, 110, 103>>
T_array   == <<97, 114, 114, 97, 121>>
T_functie == <<102, 117, 110, 99, 116, 105, 101>>
T_ja      == <<106, 97>>
T_nee     == <<110, 101, 101>>
T_true    == <<116, 114, 117, 101>>
T_false   == <<102, 97, 108, 115, 101>>

TypeName(v) ==
  CASE v.t = "N" -> T_null  [] v.t = "B" -> T_bool   [] v.t = "F" -> T_float
    [] v.t = "I" -> T_int   [] v.t = "S" -> T_string [] v.t = "A" -> T_array
    [] v.t = "Fn" -> T_functie

MaxDisplayDepth == 6

(* The text print() and the prompt write for a value.  "cyc" when the      *)
(* nesting exceeds MaxDisplayDepth (a cyclic array, U12).                  *)
RECURSIVE Display(_, _, _)
RECURSIVE DisplayItems(_, _, _, _)
Display(v, h, d) ==
  CASE v.t = "N" -> [ok |-> TRUE, s |-> <<>>]
    [] v.t = "B" -> [ok |-> TRUE, s |-> IF v.v THEN T_ja ELSE T_nee]
    [] v.t = "I" -> [ok |-> TRUE, s |-> IntText(v.v)]
    [] v.t = "F" -> [ok |-> TRUE, s |-> FltText(v)]
    [] v.t = "S" -> [ok |-> TRUE, s |-> h[v.r].items]
    [] v.t = "Fn" -> [ok |-> TRUE, s |-> T_functie]
    [] v.t = "A" -> IF d = 0 THEN [ok |-> FALSE, s |-> <<>>]
                    ELSE LET r == DisplayItems(h[v.r].items, 1, h, d - 1)
                         IN [ok |-> r.ok, s |-> <<91>> \o r.s \o <<93>>]
DisplayItems(items, i, h, d) ==
  IF i > Len(items) THEN [ok |-> TRUE, s |-> <<>>]
  ELSE LET x == Display(items[i], h, d)
           rest == DisplayItems(items, i + 1, h, d)
       IN [ok |-> x.ok /\ rest.ok,
           s |-> (IF i > 1 THEN <<44, 32>> ELSE <<>>) \o x.s \o rest.s]

(***************************************************************************)
(* print: the "{}" placeholders OF THE FIRST ARGUMENT'S TEXT are replaced, *)
(* left to right, by the texts of the remaining arguments; then a newline. *)
(***************************************************************************)
RECURSIVE Subst(_, _, _, _)
Subst(fmt, i, reps, j) ==
  IF i > Len(fmt) THEN <<>>
  ELSE IF j <= Len(reps) /\ i < Len(fmt) /\ fmt[i] = 123 /\ fmt[i + 1] = 125
       THEN reps[j] \o Subst(fmt, i + 2, reps, j + 1)
       ELSE <<fmt[i]>> \o Subst(fmt, i + 1, reps, j)

(* args: sequence of values.  Result: [ok, s] with s the text written.     *)
PrintText(args, h) ==
  IF args = <<>> THEN [ok |-> TRUE, s |-> <<10>>]
  ELSE LET ds == [i \in 1..Len(args) |-> Display(args[i], h, MaxDisplayDepth)]
       IN IF \E i \in 1..Len(args) : ~ds[i].ok THEN [ok |-> FALSE, s |-> <<>>]
          ELSE [ok |-> TRUE,
                s |-> Subst(ds[1].s, 1, [i \in 1..(Len(args) - 1) |-> ds[i + 1].s], 1) \o <<10>>]

(***************************************************************************)
(* Text -> number                                                          *)
(***************************************************************************)
IsWs(c) == c \in {9, 10, 11, 12, 13, 32}
IsDigit(c) == c >= 48 /\ c <= 57

RECURSIVE TrimL(_)
TrimL(s) == IF s # <<>> /\ IsWs(s[1]) THEN TrimL(Tail(s)) ELSE s
RECURSIVE TrimR(_)
TrimR(s) == IF s # <<>> /\ IsWs(s[Len(s)]) THEN TrimR(SubSeq(s, 1, Len(s) - 1)) ELSE s
Trim(s) == TrimR(TrimL(s))

AllDigits(s) == s # <<>> /\ \A i \in 1..Len(s) : IsDigit(s[i])

RECURSIVE DigitsVal(_, _, _)       \* value of digits, or -1 when it leaves the small range
DigitsVal(s, i, acc) ==
  IF acc < 0 \/ i > Len(s) THEN acc
  ELSE IF acc >= (Small \div 16) THEN -1
  ELSE DigitsVal(s, i + 1, acc * 10 + (s[i] - 48))

(* code points outside ASCII may or may not count as white space / digits   *)
(* for the implementation's primitives: the documentation does not say     *)
HasNonAscii(s) == \E i \in 1..Len(s) : s[i] > 127

SignSplit(t) ==
  IF t # <<>> /\ t[1] \in {43, 45} THEN [neg |-> t[1] = 45, body |-> Tail(t)]
  ELSE [neg |-> FALSE, body |-> t]

(* digit strings too long for the small range: the 61-bit range ends at 1152921504606846975 and      *)
(* -1152921504606846976 (19 digits), so 20 or more significant digits are always outside it          *)
RECURSIVE StripZeros(_)
StripZeros(s) == IF Len(s) > 1 /\ s[1] = 48 THEN StripZeros(Tail(s)) ELSE s
RECURSIVE DigitsGreater(_, _, _)      \* a > b for digit strings of equal length
DigitsGreater(a, b, i) ==
  IF i > Len(a) THEN FALSE
  ELSE IF a[i] # b[i] THEN a[i] > b[i] ELSE DigitsGreater(a, b, i + 1)
MaxIntDigits == <<49,49,53,50,57,50,49,53,48,52,54,48,54,56,52,54,57,55,53>>      \* 1152921504606846975
MinIntDigits == <<49,49,53,50,57,50,49,53,48,52,54,48,54,56,52,54,57,55,54>>      \* 1152921504606846976
OutOfIntRange(neg, digits) ==
  LET d == StripZeros(digits)
  IN Len(d) >= 20 \/ (Len(d) = 19 /\ DigitsGreater(d, IF neg THEN MinIntDigits ELSE MaxIntDigits, 1))

ParseInt(s) ==
  LET sp == SignSplit(Trim(s))
  IN IF HasNonAscii(s) THEN DK("text-nonascii")
     ELSE IF AllDigits(sp.body)
          THEN LET n == DigitsVal(sp.body, 1, 0)
               IN IF n >= 0 THEN V(IntV(IF sp.neg THEN -n ELSE n))
                  ELSE IF OutOfIntRange(sp.neg, sp.body) THEN E({"Argument"})
                  ELSE DK("int-range")
          ELSE E({"Argument"})

(* position of the first '.' or 0 *)
RECURSIVE DotPos(_, _)
DotPos(s, i) == IF i > Len(s) THEN 0 ELSE IF s[i] = 46 THEN i ELSE DotPos(s, i + 1)

(* Text that can not possibly be a number in any common notation: it has no*)
(* digit and is not one of the IEEE special words.                         *)
Lower(c) == IF c >= 65 /\ c <= 90 THEN c + 32 ELSE c
LowerSeq(s) == [i \in 1..Len(s) |-> Lower(s[i])]
SpecialWords == { <<105,110,102>>, <<110,97,110>>, <<105,110,102,105,110,105,116,121>> }
ClearlyNotNumeric(b) ==
  /\ ~(\E i \in 1..Len(b) : IsDigit(b[i]))
  /\ LowerSeq(b) \notin SpecialWords

ParseFloat(s) ==
  LET sp == SignSplit(Trim(s))
      b  == sp.body
      d  == DotPos(b, 1)
      ip == IF d = 0 THEN b ELSE SubSeq(b, 1, d - 1)
      fp == IF d = 0 THEN <<>> ELSE SubSeq(b, d + 1, Len(b))
  IN IF HasNonAscii(s) THEN DK("text-nonascii")
     ELSE IF ClearlyNotNumeric(b) THEN E({"Argument"})
     ELSE IF AllDigits(ip) /\ (fp = <<>> \/ AllDigits(fp)) /\ Len(fp) <= MaxE
          THEN LET iv == DigitsVal(ip, 1, 0)
                   fv == IF fp = <<>> THEN 0 ELSE DigitsVal(fp, 1, 0)
                   w  == Len(fp)
               IN IF iv < 0 \/ fv < 0 \/ iv >= MaxM THEN DK("float-range")
                  \* fv / 10^w must be a dyadic k / 2^w : fv * 2^w divisible by 10^w <=> fv divisible by 5^w
                  ELSE IF fv % Pow(5, w) # 0 THEN DK("float-inexact")
                  ELSE LET num == iv * Pow2(w) + (fv \div Pow(5, w))
                       IN IF num = 0 /\ sp.neg THEN DK("float-negzero")
                          ELSE FltRes(IF sp.neg THEN -num ELSE num, w)
          ELSE DK("float-text")

(***************************************************************************)
(* Builtins.  Result: [r |-> three-valued result, h |-> heap, out |-> text *)
(* written].  Allocation appends a cell to the heap.                       *)
(***************************************************************************)
Builtins == {"print", "type", "bool", "float", "int", "string", "lengte"}

StrCell(s)  == [k |-> "S", items |-> s, lit |-> 0]
ArrCell(xs) == [k |-> "A", items |-> xs, lit |-> 0]

BR(r, h, o) == [r |-> r, h |-> h, out |-> o]
NewStr(s, h) == BR(V(StrV(Len(h) + 1)), Append(h, StrCell(s)), <<>>)

CallBuiltin(name, args, h) ==
  IF name = "print" THEN
       LET p == PrintText(args, h)
       IN IF p.ok THEN BR(V(Null), h, p.s) ELSE BR(DK("U12"), h, <<>>)
  ELSE IF Len(args) # 1 THEN BR(E({"Argument"}), h, <<>>)
  ELSE LET a == args[1] IN
    CASE name = "type" -> NewStr(TypeName(a), h)
      [] name = "lengte" ->
           IF a.t \in {"S", "A"} THEN BR(V(IntV(Len(h[a.r].items))), h, <<>>)
           ELSE BR(E({"Type", "Argument"}), h, <<>>)
      [] name = "string" ->
           CASE a.t = "N" -> NewStr(<<>>, h)
             [] a.t = "B" -> NewStr(IF a.v THEN T_true ELSE T_false, h)
             [] a.t = "I" -> NewStr(IntText(a.v), h)
             [] a.t = "F" -> NewStr(FltText(a), h)
             [] a.t = "S" -> BR(V(a), h, <<>>)
             [] OTHER -> BR(E({"Argument", "Type"}), h, <<>>)
      [] name = "bool" ->
           CASE a.t = "N" -> BR(V(BoolV(FALSE)), h, <<>>)
             [] a.t = "B" -> BR(V(a), h, <<>>)
             [] a.t = "I" -> BR(V(BoolV(a.v > 0)), h, <<>>)
             [] a.t = "F" -> BR(V(BoolV(a.m > 0)), h, <<>>)
             [] a.t \in {"S", "A"} -> BR(V(BoolV(h[a.r].items # <<>>)), h, <<>>)
             [] OTHER -> BR(E({"Argument", "Type"}), h, <<>>)
      [] name = "int" ->
           CASE a.t = "N" -> BR(V(IntV(0)), h, <<>>)
             [] a.t = "B" -> BR(V(IntV(IF a.v THEN 1 ELSE 0)), h, <<>>)
             [] a.t = "I" -> BR(V(a), h, <<>>)
             [] a.t = "F" -> BR(IntRes(TDiv(a.m, Pow2(a.e))), h, <<>>)
             [] a.t = "S" -> BR(ParseInt(h[a.r].items), h, <<>>)
             [] OTHER -> BR(E({"Argument", "Type"}), h, <<>>)
      [] name = "float" ->
           CASE a.t = "N" -> BR(FltRes(0, 0), h, <<>>)
             [] a.t = "B" -> BR(FltRes(IF a.v THEN 1 ELSE 0, 0), h, <<>>)
             [] a.t = "I" -> BR(FltRes(a.v, 0), h, <<>>)
             [] a.t = "F" -> BR(V(a), h, <<>>)
             [] a.t = "S" -> BR(ParseFloat(h[a.r].items), h, <<>>)
             [] OTHER -> BR(E({"Argument", "Type"}), h, <<>>)

(***************************************************************************)
(* Indexing (C13): from the front for i >= 0, from the back for i < 0.     *)
(* A failed operation leaves the heap unchanged.                           *)
(***************************************************************************)
NormIdx(i, n) == IF i < 0 THEN i + n ELSE i

IndexGet(l, i, h) ==
  LET errs == (IF i.t # "I" THEN {"Type"} ELSE {})
              \cup (IF l.t \notin {"S", "A"} THEN {"Type"} ELSE {})
  IN IF errs # {} THEN BR(E(errs), h, <<>>)
     ELSE LET items == h[l.r].items
              j == NormIdx(i.v, Len(items))
          IN IF j < 0 \/ j >= Len(items) THEN BR(E({"Index"}), h, <<>>)
             ELSE IF l.t = "A" THEN BR(V(items[j + 1]), h, <<>>)
             ELSE NewStr(<<items[j + 1]>>, h)

IndexSet(l, i, v, h) ==
  IF i.t # "I" \/ l.t \notin {"S", "A"} THEN BR(E({"Type"}), h, <<>>)
  ELSE LET items == h[l.r].items
           j == NormIdx(i.v, Len(items))
           oob == j < 0 \/ j >= Len(items)
           badv == l.t = "S" /\ v.t # "S"
       IN IF oob \/ badv
          THEN BR(E((IF oob THEN {"Index"} ELSE {}) \cup (IF badv THEN {"Type"} ELSE {})), h, <<>>)
          ELSE IF l.t = "A"
               THEN BR(V(v), [h EXCEPT ![l.r].items = [items EXCEPT ![j + 1] = v]], <<>>)
               ELSE \* the character at j is replaced by the whole text of v
                    LET src == h[v.r].items
                        new == SubSeq(items, 1, j) \o src \o SubSeq(items, j + 2, Len(items))
                    IN BR(V(v), [h EXCEPT ![l.r].items = new], <<>>)

(***************************************************************************)
(* Tree-unfolding of a value for comparison with an observed result.       *)
(* Produces exactly the records the recorder writes (harness/src/proj.rs). *)
(***************************************************************************)
RECURSIVE Unfold(_, _, _)
Unfold(v, h, d) ==
  CASE v.t = "N" -> [t |-> "N"]
    [] v.t = "B" -> [t |-> "B", v |-> v.v]
    [] v.t = "I" -> [t |-> "I", v |-> v.v]
    [] v.t = "F" -> [t |-> "F", m |-> v.m, e |-> v.e]
    [] v.t = "S" -> [t |-> "S", cp |-> h[v.r].items]
    [] v.t = "Fn" -> [t |-> "Fn"]
    [] v.t = "A" -> IF d = 0 THEN [t |-> "Cut"]
                    ELSE [t |-> "A",
                          items |-> [i \in 1..Len(h[v.r].items) |-> Unfold(h[v.r].items[i], h, d - 1)]]

(* structural equality of two unfolded values (never compares across kinds) *)
RECURSIVE UEq(_, _)
UEq(a, b) ==
  /\ a.t = b.t
  /\ CASE a.t = "B" -> a.v = b.v
       \* numbers beyond the small range are carried as text ("big") / as a bit pattern ("bits")
       [] a.t = "I" -> IF ("v" \in DOMAIN a) /\ ("v" \in DOMAIN b) THEN a.v = b.v
                       ELSE ("big" \in DOMAIN a) /\ ("big" \in DOMAIN b) /\ a.big = b.big
       [] a.t = "F" -> IF ("m" \in DOMAIN a) /\ ("m" \in DOMAIN b) THEN a.m = b.m /\ a.e = b.e
                       ELSE ("bits" \in DOMAIN a) /\ ("bits" \in DOMAIN b) /\ a.bits = b.bits
       [] a.t = "S" -> a.cp = b.cp
       [] a.t = "A" -> Len(a.items) = Len(b.items)
                       /\ \A i \in 1..Len(a.items) : UEq(a.items[i], b.items[i])
       [] OTHER -> TRUE
=============================================================================
