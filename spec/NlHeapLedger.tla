---------------------------- MODULE NlHeapLedger ----------------------------
(***************************************************************************)
(* The allocation ledger of one evaluation, as a trace specification over  *)
(* the heap and collector events recorded from the real interpreter        *)
(* (properties C03 and C04; thread ownership for C16).                     *)
(*                                                                         *)
(* Events (Recs[pid].heap), in program order:                              *)
(*   Alloc id | Free id dup | DeadDeref id                                 *)
(*   Trace gc id | Untrace gc id                                           *)
(*   Snapshot roots edges   what the MACHINE holds at a collection point   *)
(*                          (stack, globals, constants, last value, value  *)
(*                          being returned) and the points-to edges below  *)
(*   RunBegin gc managed given | RunEnd gc managed                         *)
(*   Drop gc managed | MarkIndex index len                                 *)
(* then the end of the run: the harness has released the result graph      *)
(* (each distinct box once, Free events) and reports the boxes of this run *)
(* that are still live (live_after).                                       *)
(*                                                                         *)
(* State: live boxes, owner of each box (a collector id, or 0 = nobody /   *)
(* the caller), the last snapshot, the managed set at RunBegin.            *)
(*                                                                         *)
(* Violations recorded (class):                                            *)
(*  C03  dead-deref       a released box was used                          *)
(*       double-free      a box was released twice                         *)
(*       reclaimed        a collection ended without a box that was        *)
(*                        reachable from the machine's snapshot            *)
(*       root-not-passed  the roots given to the collector miss something  *)
(*                        the machine holds                                *)
(*       mark-index       the mark phase indexed outside the vector        *)
(*       two-owners       a box handed to a second collector while the     *)
(*                        first still manages it                           *)
(*  C04  kept-garbage     a collection ended still managing a box that is  *)
(*                        not reachable from the snapshot                  *)
(*       leak-managed     live at the end, still owned by a collector that *)
(*                        was dropped (the final sweep released nothing)   *)
(*       leak-lost        live at the end, owned by nobody                 *)
(***************************************************************************)
EXTENDS Integers, Sequences, FiniteSets, TLC, Json, IOUtils

Recs == ndJsonDeserialize(IOEnv.RECS)

VARIABLES pid, i, live, owner, snap, begin, dropped, viol

vars == <<pid, i, live, owner, snap, begin, dropped, viol>>

Ev == Recs[pid].heap
ToSet(s) == {s[k] : k \in 1..Len(s)}
MaxViol == 10

V(class, id) == [class |-> class, id |-> id, at |-> i]
Add(S) == IF Cardinality(viol) >= MaxViol THEN viol ELSE viol \cup S

(* reachability over the snapshot's edges: edges = sequence of [a, k] (array id, element ids) *)
Kids(edges, x) == UNION {ToSet(edges[j].k) : j \in {n \in 1..Len(edges) : edges[n].a = x}}
RECURSIVE ReachFrom(_, _, _)
ReachFrom(edges, S, seen) ==
  LET new == (UNION {Kids(edges, x) : x \in S}) \ (seen \cup S)
  IN IF new = {} THEN seen \cup S ELSE ReachFrom(edges, new, seen \cup S)
SnapReach == IF snap = <<>> THEN {} ELSE ReachFrom(snap[1].edges, ToSet(snap[1].roots), {})

OwnerOf(id) == IF id \in DOMAIN owner THEN owner[id] ELSE 0

(* every box the record mentions: the owner table is laid out once (a table that grows by one key per   *)
(* allocation made a 25 000-allocation loop quadratic in interpreted steps)                            *)
IdsOf(evs) == {evs[k].id : k \in {j \in 1..Len(evs) : "id" \in DOMAIN evs[j]}}

Init ==
  /\ pid \in 1..Len(Recs)
  /\ i = 1 /\ live = {} /\ owner = [x \in IdsOf(Recs[pid].heap) |-> 0]
  /\ snap = <<>> /\ begin = {} /\ dropped = {} /\ viol = {}

SetOwner(id, g) == IF id \in DOMAIN owner THEN [owner EXCEPT ![id] = g]
                   ELSE [x \in (DOMAIN owner) \cup {id} |-> IF x = id THEN g ELSE owner[x]]

Step ==
  /\ i <= Len(Ev)
  /\ pid' = pid /\ i' = i + 1
  /\ LET e == Ev[i] IN
     CASE e.e = "Alloc" ->
            /\ live' = live \cup {e.id} /\ owner' = SetOwner(e.id, 0)
            /\ UNCHANGED <<snap, begin, dropped, viol>>
       [] e.e = "Free" ->
            /\ live' = live \ {e.id}
            /\ viol' = Add(IF e.dup THEN {V("double-free", e.id)} ELSE {})
            /\ UNCHANGED <<owner, snap, begin, dropped>>
       [] e.e = "DeadDeref" ->
            /\ viol' = Add({V("dead-deref", e.id)}) /\ UNCHANGED <<live, owner, snap, begin, dropped>>
       [] e.e = "Trace" ->
            /\ viol' = Add(IF OwnerOf(e.id) \notin {0, e.gc} /\ OwnerOf(e.id) \notin dropped
                           THEN {V("two-owners", e.id)} ELSE {})
            /\ owner' = SetOwner(e.id, e.gc)
            /\ UNCHANGED <<live, snap, begin, dropped>>
       [] e.e = "Untrace" ->
            /\ owner' = SetOwner(e.id, 0) /\ UNCHANGED <<live, snap, begin, dropped, viol>>
       [] e.e = "Snapshot" ->
            /\ snap' = <<e>> /\ UNCHANGED <<live, owner, begin, dropped, viol>>
       [] e.e = "RunBegin" ->
            /\ begin' = ToSet(e.managed)
            /\ viol' = Add(IF snap # <<>> /\ ~(ToSet(snap[1].roots) \subseteq ToSet(e.given))
                           THEN {V("root-not-passed", 0)} ELSE {})
            /\ UNCHANGED <<live, owner, snap, dropped>>
       [] e.e = "RunEnd" ->
            LET after == ToSet(e.managed)
                need == SnapReach \cap begin
            IN /\ viol' = Add((IF ~(need \subseteq after) \/ ~(need \subseteq live)
                               THEN {V("reclaimed", CHOOSE x \in (need \ after) \cup (need \ live) : TRUE)} ELSE {})
                              \cup (IF snap # <<>> /\ ~(after \subseteq SnapReach)
                                    THEN {V("kept-garbage", CHOOSE x \in after \ SnapReach : TRUE)} ELSE {}))
               /\ snap' = <<>> /\ UNCHANGED <<live, owner, begin, dropped>>
       [] e.e = "Drop" ->
            /\ dropped' = dropped \cup {e.gc} /\ UNCHANGED <<live, owner, snap, begin, viol>>
       [] e.e = "MarkIndex" ->
            /\ viol' = Add({V("mark-index", 0)}) /\ UNCHANGED <<live, owner, snap, begin, dropped>>

(* the end of the run: audit what is still live *)
Audit ==
  /\ i = Len(Ev) + 1
  /\ pid' = pid /\ i' = i + 1
  /\ LET left == ToSet(Recs[pid].live_after) IN
     viol' = Add({V(IF OwnerOf(x) # 0 THEN "leak-managed" ELSE "leak-lost", x) : x \in left})
  /\ UNCHANGED <<live, owner, snap, begin, dropped>>

Next == Step \/ Audit
Spec == Init /\ [][Next]_vars

Done == i = Len(Ev) + 2

(* the ledger's own live set agrees with the recorder's at the end (binding sanity) *)
Allocated == {Ev[k].id : k \in {j \in 1..Len(Ev) : Ev[j].e = "Alloc"}}
LedgerAgrees == Done => (live \cap Allocated) = (ToSet(Recs[pid].live_after) \cap Allocated)

ViolSeq(S) == LET RECURSIVE Ser(_)
                  Ser(T) == IF T = {} THEN <<>>
                            ELSE LET x == CHOOSE y \in T : \A z \in T : y.at <= z.at
                                 IN <<x>> \o Ser(T \ {x})
              IN Ser(S)

Report ==
  Done => PrintT(<<"VERDICT", ToJson([id |-> Recs[pid].id,
                                      class |-> IF viol = {} THEN "agree" ELSE "mismatch",
                                      rule |-> IF viol = {} THEN "ledger" ELSE "heap",
                                      classes |-> ViolSeq({[class |-> c, id |-> 0, at |-> 0] : c \in {v.class : v \in viol}}),
                                      viol |-> ViolSeq(viol), events |-> Len(Ev)])>>)
=============================================================================
