------------------------------ MODULE NlGCVec ------------------------------
(* Behaviours of NlGC as replayable test vectors (specification -> implementation, M2): *)
(* a history variable records every operation with the design's state after it; TLC in  *)
(* simulation mode prints one vector per behaviour.                                     *)
EXTENDS NlGC, Json

VARIABLE hist

InitH == Init /\ hist = <<>>
NextH == /\ Next
         /\ hist' = Append(hist, [op |-> last', live |-> live', managed |-> managed',
                                  handed |-> handed', roots |-> roots'])

PrintVec == (nops = MaxOps) => PrintT(<<"VEC", ToJson([ops |-> hist])>>)
=============================================================================
