----------------------------- MODULE TV_Compile -----------------------------
(***************************************************************************)
(* Conformance of the real compiler with NlCompiler (M3): for every record *)
(* [nodes, root, bc] the code and constant pool the real compiler emitted  *)
(* for the tree are decoded with the exported opcode table and compared    *)
(* with Compile(nodes, root), instruction by instruction.                  *)
(*                                                                         *)
(* verdict classes                                                         *)
(*   agree      same instructions, same operands, same constants           *)
(*   drift      first difference reported (at, what): the implementation   *)
(*              generates other code than this model -- evidence, not a    *)
(*              violation (other code may mean the same; what it means is  *)
(*              decided by NlSem / NlVM on the same record)                *)
(*   reject     the model and the implementation disagree on whether the   *)
(*              program compiles at all, or on the kind of the error       *)
(***************************************************************************)
EXTENDS NlCompiler, Json, IOUtils

Recs  == ndJsonDeserialize(IOEnv.RECS)
OpTab == ndJsonDeserialize(IOEnv.OPTAB)[1]

VARIABLE pid

Ops == {OpTab.ops[i] : i \in 1..Len(OpTab.ops)}
Known(b) == \E o \in Ops : o.byte = b
OpOf(b) == CHOOSE o \in Ops : o.byte = b

(* little-endian operand of w bytes at byte offset i (0-based) *)
Operand(code, i, w) == IF w = 1 THEN code[i + 1] ELSE code[i + 1] + 256 * code[i + 2]

RECURSIVE Decode(_, _)
Decode(code, ip) ==
  IF ip >= Len(code) THEN <<>>
  ELSE IF ~Known(code[ip + 1]) THEN << [n |-> "?", a |-> code[ip + 1], b |-> 0, at |-> ip] >>
  ELSE LET o == OpOf(code[ip + 1])
           w == o.widths
           size == 1 + (IF Len(w) >= 1 THEN w[1] ELSE 0) + (IF Len(w) >= 2 THEN w[2] ELSE 0)
       IN IF ip + size > Len(code) THEN << [n |-> "?", a |-> code[ip + 1], b |-> 0, at |-> ip] >>
          ELSE << [n |-> o.name,
                   a |-> IF Len(w) >= 1 THEN Operand(code, ip + 1, w[1]) ELSE 0,
                   b |-> IF Len(w) >= 2 THEN Operand(code, ip + 1 + w[1], w[2]) ELSE 0,
                   at |-> ip] >> \o Decode(code, ip + size)

(* the constants as the recorder projects them, in the model's shape *)
RealConst(c) ==
  CASE c.t = "I" -> IF "v" \in DOMAIN c THEN [t |-> "I", v |-> c.v] ELSE [t |-> "I", big |-> c.big]
    [] c.t = "F" -> IF "m" \in DOMAIN c THEN LET f == FNorm(c.m, c.e) IN [t |-> "F", m |-> f.m, e |-> f.e]
                    ELSE [t |-> "F", big |-> c.big]
    [] c.t = "S" -> [t |-> "S", cp |-> c.cp]
    [] c.t = "Fn" -> [t |-> "Fn", ip |-> c.ip, nl |-> c.nl]
    [] OTHER -> c

FirstDiff(s, t) ==
  LET n == IF Len(s) < Len(t) THEN Len(s) ELSE Len(t)
      D == {i \in 1..n : s[i] # t[i]}
  IN IF D # {} THEN CHOOSE i \in D : \A j \in D : i <= j
     ELSE IF Len(s) # Len(t) THEN n + 1 ELSE 0

Verdict ==
  LET r == Recs[pid]
      m == Compile(r.nodes, r.root)
      compiled == r.bc.code # <<>>
      real == Decode(r.bc.code, 0)
      rc == [i \in 1..Len(r.bc.consts) |-> RealConst(r.bc.consts[i])]
      dc == FirstDiff(m.code, real)
      dk == FirstDiff(m.consts, rc)
      usesBig == \E i \in 1..Len(rc) : "big" \in DOMAIN rc[i]
  IN IF ~compiled
     THEN (IF m.err = "" THEN [class |-> "reject", what |-> "model-compiles", at |-> 0]
           ELSE IF r.obs.class = "Err" /\ r.obs.kind = m.err THEN [class |-> "agree", what |-> "rejected", at |-> 0]
           ELSE [class |-> "reject", what |-> "error-kind", at |-> 0])
     ELSE IF m.err # "" THEN [class |-> "reject", what |-> "model-rejects", at |-> 0]
     ELSE IF dc # 0 THEN [class |-> "drift", what |-> "code", at |-> dc,
                          model |-> IF dc <= Len(m.code) THEN m.code[dc] ELSE [n |-> "(end)"],
                          real |-> IF dc <= Len(real) THEN real[dc] ELSE [n |-> "(end)"]]
     ELSE IF dk # 0 THEN [class |-> IF usesBig THEN "skip" ELSE "drift", what |-> "consts", at |-> dk]
     ELSE IF ~JumpsResolved(m.code) THEN [class |-> "drift", what |-> "jump", at |-> 0]
     ELSE [class |-> "agree", what |-> "code", at |-> 0]

Init == pid \in 1..Len(Recs)
Next == UNCHANGED pid

Report ==
  LET v == Verdict
  IN PrintT(<<"VERDICT", ToJson([id |-> Recs[pid].id, class |-> v.class, rule |-> v.what, at |-> v.at,
                                 n |-> Len(Recs[pid].bc.code),
                                 model |-> IF "model" \in DOMAIN v THEN v.model ELSE [n |-> ""],
                                 real |-> IF "real" \in DOMAIN v THEN v.real ELSE [n |-> ""]])>>)
=============================================================================
