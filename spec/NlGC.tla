-------------------------------- MODULE NlGC --------------------------------
(***************************************************************************)
(* The collector (properties C03 and C04).                                 *)
(*                                                                         *)
(* Two descriptions evolve in lock step:                                   *)
(*                                                                         *)
(*  - the DESIGN, at the level of sets: `live` boxes, the collector's      *)
(*    `managed` set, the points-to graph `pts` of arrays, the machine's    *)
(*    `roots`, objects `handed` over to the caller, and a count of how     *)
(*    often each box was released;                                         *)
(*  - the ALGORITHM of src/gc.rs as it is meant to work: a vector          *)
(*    `objs` of managed objects, a mark bitmap over its indices,           *)
(*    recursive marking that is idempotent on arrays already marked        *)
(*    (so it terminates on cycles), a sweep that removes unmarked          *)
(*    entries in REVERSE index order with swap_remove, and an untrace      *)
(*    that recurses only through arrays it still manages.                  *)
(*                                                                         *)
(* The refinement mapping  managed = Range(objs)  is checked as an         *)
(* invariant (Refines), together with                                      *)
(*   Safe       (C03) everything reachable from a root, or handed to the   *)
(*              caller and not yet released by it, is live                 *)
(*   Once       (C03) no box is released twice                             *)
(*   Precise    (C04) right after a collection the collector manages       *)
(*              exactly what is reachable from the roots                   *)
(*   Nothing    (C04) after Drop, and after the caller has released what   *)
(*              was handed over, nothing is live                           *)
(*                                                                         *)
(* The ownership protocol is explicit: Link(a, o) is only possible while   *)
(* both objects belong to the same owner (collector or caller); without    *)
(* it, a managed object linked into a handed-over array is freed by Drop   *)
(* although the caller can still reach it.                                 *)
(*                                                                         *)
(* Dev names deviations of the real code from this design (3.8):           *)
(*   "SweepFreesNothing"  the bitmap has length 0 when sweep iterates its  *)
(*                        zeros: nothing is ever released                  *)
(*   "ForwardSweep"       sweep in forward index order (a classic slip)    *)
(* With Dev = {} all invariants hold; each deviation is refuted by TLC.    *)
(***************************************************************************)
EXTENDS Integers, Sequences, FiniteSets, TLC

CONSTANTS Obj,        \* object identities (model values)
          MaxOps,     \* bound on the length of a behaviour
          Dev

VARIABLES live, managed, pts, roots, handed, freed, kind,     \* design (kind: "F" | "S" | "A")
          objs,                                         \* algorithm: the vector
          nops, last                                    \* step counter; what the last operation was

vars == <<live, managed, pts, roots, handed, freed, kind, objs, nops, last>>

Range(s) == {s[i] : i \in 1..Len(s)}

(* reachability through arrays *)
RECURSIVE ReachFrom(_, _)
ReachFrom(S, seen) ==
  LET new == (UNION {pts[o] : o \in S}) \ (seen \cup S)
  IN IF new = {} THEN seen \cup S ELSE ReachFrom(new, seen \cup S)
Reach(S) == ReachFrom(S, {})

Init ==
  /\ live = {} /\ managed = {} /\ roots = {} /\ handed = {}
  /\ pts = [o \in Obj |-> {}]
  /\ freed = [o \in Obj |-> 0]
  /\ kind = [o \in Obj |-> "F"]
  /\ objs = <<>>
  /\ nops = 0 /\ last = <<"init">>

Fresh == Obj \ (live \cup {o \in Obj : freed[o] > 0})

(* ---------------------------- the algorithm ---------------------------- *)
IndexOf(v, o) == IF o \in Range(v) THEN CHOOSE i \in 1..Len(v) : v[i] = o ELSE 0

SetToSeq(S) == LET RECURSIVE Ser(_)
                   Ser(T) == IF T = {} THEN <<>> ELSE LET x == CHOOSE y \in T : TRUE IN <<x>> \o Ser(T \ {x})
               IN Ser(S)

(* marking: the set of marked indices; an array already marked is not entered again *)
RECURSIVE Mark(_, _, _)
Mark(v, work, marked) ==
  IF work = <<>> THEN marked
  ELSE LET o == Head(work)
           i == IndexOf(v, o)
       IN IF i = 0 THEN Mark(v, Tail(work), marked)          \* not managed by this collector
          ELSE IF kind[o] = "A"
               THEN IF i \in marked THEN Mark(v, Tail(work), marked)
                    ELSE Mark(v, Tail(work) \o SetToSeq(pts[o]), marked \cup {i})
               ELSE Mark(v, Tail(work), marked \cup {i})

SwapRemove(v, i) ==
  IF i = Len(v) THEN SubSeq(v, 1, Len(v) - 1)
  ELSE SubSeq([v EXCEPT ![i] = v[Len(v)]], 1, Len(v) - 1)

(* sweep the unmarked indices, given in the order in which they are visited *)
RECURSIVE SweepIdx(_, _, _)
SweepIdx(v, idxs, out) ==       \* out: objects released
  IF idxs = <<>> THEN [v |-> v, out |-> out]
  ELSE LET i == Head(idxs)
       IN IF i > Len(v) THEN SweepIdx(v, Tail(idxs), out)   \* stale index (only with ForwardSweep)
          ELSE SweepIdx(SwapRemove(v, i), Tail(idxs), out \cup {v[i]})

Descending(S) == LET RECURSIVE D(_)
                     D(T) == IF T = {} THEN <<>>
                             ELSE LET m == CHOOSE x \in T : \A y \in T : y <= x IN <<m>> \o D(T \ {m})
                 IN D(S)
Ascending(S) == LET RECURSIVE A(_)
                    A(T) == IF T = {} THEN <<>>
                            ELSE LET m == CHOOSE x \in T : \A y \in T : y >= x IN <<m>> \o A(T \ {m})
                IN A(S)

AlgCollect(v, rootset) ==
  LET marked == Mark(v, SetToSeq(rootset), {})
      unmarked == (1..Len(v)) \ marked
      order == IF "ForwardSweep" \in Dev THEN Ascending(unmarked) ELSE Descending(unmarked)
  IN IF "SweepFreesNothing" \in Dev THEN [v |-> v, out |-> {}]
     ELSE SweepIdx(v, order, {})

(* untrace: remove o and, through arrays still managed, everything below it *)
RECURSIVE AlgUntrace(_, _)
AlgUntrace(v, work) ==
  IF work = <<>> THEN v
  ELSE LET o == Head(work)
           i == IndexOf(v, o)
       IN IF i = 0 THEN AlgUntrace(v, Tail(work))
          ELSE AlgUntrace(SwapRemove(v, i),
                          Tail(work) \o (IF kind[o] = "A" THEN SetToSeq(pts[o]) ELSE <<>>))

(* ------------------------------ operations ------------------------------ *)
Count == nops < MaxOps /\ nops' = nops + 1

Alloc(o, k) ==
  /\ o \in Fresh
  /\ kind' = [kind EXCEPT ![o] = k]
  /\ live' = live \cup {o} /\ managed' = managed \cup {o} /\ roots' = roots \cup {o}
  /\ objs' = Append(objs, o)
  /\ pts' = [pts EXCEPT ![o] = {}]
  /\ UNCHANGED <<handed, freed>> /\ Count /\ last' = <<"alloc", o, k>>

(* the machine stores a value it holds into an array it holds; both belong to one owner *)
Link(a, o) ==
  /\ kind[a] = "A" /\ a \in live /\ o \in live
  /\ a \in Reach(roots) /\ o \in Reach(roots)
  /\ (a \in managed /\ o \in managed) \/ (a \in handed /\ o \in handed)
  /\ o \notin pts[a]
  /\ pts' = [pts EXCEPT ![a] = @ \cup {o}]
  /\ UNCHANGED <<kind, live, managed, roots, handed, freed, objs>> /\ Count /\ last' = <<"link", a, o>>

Unroot(o) ==
  /\ o \in roots
  /\ roots' = roots \ {o}
  /\ UNCHANGED <<kind, live, managed, pts, handed, freed, objs>> /\ Count /\ last' = <<"unroot", o>>

Release(S) == /\ live' = live \ S
              /\ freed' = [o \in Obj |-> IF o \in S THEN freed[o] + 1 ELSE freed[o]]

Collect ==
  /\ managed # {}
  /\ LET keep == Reach(roots) \cap managed
         r == AlgCollect(objs, roots)
     IN /\ managed' = keep
        /\ objs' = r.v
        /\ Release(r.out)                       \* what the ALGORITHM releases
  /\ UNCHANGED <<kind, pts, roots, handed>> /\ Count /\ last' = <<"collect">>

(* hand the graph of a held value over to the caller (the result of a run, the constants) *)
Untrace(o) ==
  /\ o \in roots /\ o \in managed
  /\ LET H == Reach({o}) \cap managed
     IN /\ managed' = managed \ H
        /\ handed' = handed \cup H
  /\ objs' = AlgUntrace(objs, <<o>>)
  /\ UNCHANGED <<kind, live, pts, roots, freed>> /\ Count /\ last' = <<"untrace", o>>

(* the collector goes away: everything it still manages is released; the machine is gone too *)
Drop ==
  /\ last[1] # "drop"
  /\ LET r == AlgCollect(objs, {})
     IN /\ objs' = r.v /\ Release(r.out)
  /\ managed' = {} /\ roots' = {}
  /\ UNCHANGED <<kind, pts, handed>> /\ Count /\ last' = <<"drop">>

(* the caller releases one object that was handed to it -- one the machine no longer refers to:  *)
(* releasing a result that a variable of a retained machine still holds is a use-after-free of    *)
(* the caller's own making (the machine, and its collector when it walks the roots, will read it) *)
(* and is outside what C03 / C04 promise                                                          *)
CallerFree(o) ==
  /\ o \in handed /\ o \in live /\ o \notin Reach(roots)
  /\ Release({o})
  /\ handed' = handed \ {o}
  /\ UNCHANGED <<kind, managed, pts, roots, objs>> /\ Count /\ last' = <<"callerfree", o>>

AllocAny == \E o \in Obj, k \in {"F", "S", "A"} : Alloc(o, k)
LinkAny == \E a, o \in Obj : Link(a, o)
UnrootAny == \E o \in Obj : Unroot(o)
UntraceAny == \E o \in Obj : Untrace(o)
CallerFreeAny == \E o \in Obj : CallerFree(o)

Next == AllocAny \/ LinkAny \/ UnrootAny \/ Collect \/ UntraceAny \/ Drop \/ CallerFreeAny

Spec == Init /\ [][Next]_vars

(* ------------------------------ properties ------------------------------ *)
TypeOK == /\ live \subseteq Obj /\ managed \subseteq Obj /\ roots \subseteq Obj /\ handed \subseteq Obj
          /\ Len(objs) = Cardinality(Range(objs))            \* no duplicates in the vector

Refines == Range(objs) = managed                             \* the algorithm implements the design

Safe == (Reach(roots) \cap (managed \cup handed)) \cup handed \subseteq live          \* C03
Once == \A o \in Obj : freed[o] <= 1                                                   \* C03

Precise == last[1] = "collect" => managed = Reach(roots) \cap managed /\ managed \subseteq live /\
           live \cap {o \in Obj : o \notin handed} = managed                          \* C04
Nothing == (last[1] = "drop" /\ handed = {}) => live = {}                              \* C04
NothingLater == (managed = {} /\ handed = {} /\ roots = {}) => live = {}               \* C04

Sym == Permutations(Obj)
=============================================================================
