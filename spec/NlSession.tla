------------------------------ MODULE NlSession ------------------------------
(***************************************************************************)
(* A retained session (property C17), at the level of its persistent       *)
(* state: the top-level variables and their values.                        *)
(*                                                                         *)
(* The general law -- line i of a session behaves like the last line of    *)
(* the single program made of everything earlier lines completed -- is     *)
(* decided by the reference semantics on the concatenated program (the     *)
(* records of family "session-line-*" validated by TV_Sem).  This module   *)
(* covers what that formulation cannot express: a line cut short at an     *)
(* ARBITRARY point (an error injected after k instructions, for every k).  *)
(* Where exactly inside the line that point lies is not observable, so the *)
(* specification keeps the SET of persistent states that are possible and  *)
(* every later observation narrows it:                                     *)
(*                                                                         *)
(*   decl name v        stel name = v            (v an integer)            *)
(*   incr names         name = name + 1 for each name, in order, on one    *)
(*                      line; with abort: any PREFIX of these assignments  *)
(*                      may have completed, nothing else changes           *)
(*   show names         [n1, n2, ...] evaluated: the recorded value must   *)
(*                      be the values of some state still possible         *)
(*   reject             a line that does not parse or compile: no effect   *)
(*                                                                         *)
(* A session is accepted iff the set of possible states never becomes      *)
(* empty and every line's outcome class is the one the line's kind allows. *)
(***************************************************************************)
EXTENDS Integers, Sequences, FiniteSets, TLC, Json, IOUtils

Recs == ndJsonDeserialize(IOEnv.RECS)

VARIABLES pid, i, envs, viol

vars == <<pid, i, envs, viol>>

Lines == Recs[pid].lines          \* [k, name, v, names, abort]
Obs   == Recs[pid].obs            \* per line: [class, val (sequence of ints for show), kind]

Init == /\ pid \in 1..Len(Recs)
        /\ i = 1 /\ envs = {<<>>} /\ viol = {}         \* an environment: sequence of <<name, value>>

Lookup(e, n) == LET S == {j \in 1..Len(e) : e[j][1] = n}
                IN IF S = {} THEN -1 ELSE e[CHOOSE j \in S : \A k \in S : k <= j][2]
Declared(e, n) == \E j \in 1..Len(e) : e[j][1] = n
Set(e, n, v) == [j \in 1..Len(e) |-> IF e[j][1] = n THEN <<n, v>> ELSE e[j]]
Declare(e, n, v) == IF Declared(e, n) THEN Set(e, n, v) ELSE Append(e, <<n, v>>)

RECURSIVE IncrPrefix(_, _, _)
IncrPrefix(e, names, j) ==       \* the first j increments applied
  IF j = 0 THEN e ELSE LET n == names[1] IN IncrPrefix(Set(e, n, Lookup(e, n) + 1), Tail(names), j - 1)

V(c) == [class |-> c, line |-> i]

Step ==
  /\ i <= Len(Lines)
  /\ pid' = pid /\ i' = i + 1
  /\ LET l == Lines[i]  o == Obs[i] IN
     CASE l.k = "decl" ->
            /\ envs' = {Declare(e, l.name, l.v) : e \in envs}
            /\ viol' = viol \cup (IF o.class # "Value" THEN {V("decl-failed")} ELSE {})
       [] l.k = "incr" ->
            IF \E e \in envs : \E n \in {l.names[j] : j \in 1..Len(l.names)} : ~Declared(e, n)
            THEN \* a name is not declared: the line must be rejected, without effect
                 /\ envs' = envs
                 /\ viol' = viol \cup (IF o.class = "Err" /\ o.kind = "Reference" THEN {} ELSE {V("undeclared-accepted")})
            ELSE IF l.abort
                 THEN \* cut short somewhere: any prefix of the assignments may have completed
                      /\ envs' = UNION {{IncrPrefix(e, l.names, j) : j \in 0..Len(l.names)} : e \in envs}
                      /\ viol' = viol \cup (IF o.class \in {"Budget", "Value"} THEN {} ELSE {V("abort-outcome")})
                 ELSE /\ envs' = {IncrPrefix(e, l.names, Len(l.names)) : e \in envs}
                      /\ viol' = viol \cup (IF o.class = "Value" THEN {} ELSE {V("incr-failed")})
       [] l.k = "show" ->
            LET fits == {e \in envs : \A j \in 1..Len(l.names) : Lookup(e, l.names[j]) = o.val[j]}
            IN IF o.class # "Value" \/ Len(o.val) # Len(l.names)
               THEN /\ envs' = envs /\ viol' = viol \cup {V("show-failed")}
               ELSE IF fits = {} THEN /\ envs' = envs /\ viol' = viol \cup {V("impossible-state")}
               ELSE /\ envs' = fits /\ viol' = viol
       [] l.k = "reject" ->
            /\ envs' = envs
            /\ viol' = viol \cup (IF o.class = "Err" /\ o.out = <<>> THEN {} ELSE {V("reject-accepted")})

Next == Step
Spec == Init /\ [][Next]_vars
Done == i > Len(Lines)

ViolSeq(S) == LET RECURSIVE Ser(_)
                  Ser(T) == IF T = {} THEN <<>>
                            ELSE LET x == CHOOSE y \in T : \A z \in T : y.line <= z.line IN <<x>> \o Ser(T \ {x})
              IN Ser(S)

Report ==
  Done => PrintT(<<"VERDICT", ToJson([id |-> Recs[pid].id, class |-> IF viol = {} THEN "agree" ELSE "mismatch",
                                      rule |-> IF viol = {} THEN "session"
                                               ELSE (CHOOSE v \in viol : \A z \in viol : v.line <= z.line).class,
                                      viol |-> ViolSeq(viol), possible |-> Cardinality(envs)])>>)

(* the set of possible states is never empty: the specification itself can always continue *)
NonEmpty == envs # {}
=============================================================================
