INIT VmInit
NEXT VmNext
INVARIANT VmReport
CHECK_DEADLOCK FALSE
