------------------------------ MODULE TV_Rel ------------------------------
(* Validation of recorded (program, transformed program) observation pairs *)
(* against the laws of NlXform.  One state per record.                     *)
EXTENDS NlXform, TLC, Json, IOUtils

Recs == ndJsonDeserialize(IOEnv.RECS)
VARIABLE pid
Init == pid \in 1..Len(Recs)
Next == UNCHANGED pid

Report ==
  LET r == Recs[pid]
      l == Law(r.kind, r.base, r.var, r.vdef)
  IN PrintT(<<"VERDICT", ToJson([id |-> r.id,
                                 class |-> IF l = "holds" THEN "agree" ELSE IF l = "skip" THEN "skip" ELSE "mismatch",
                                 rule |-> r.kind])>>)
=============================================================================
