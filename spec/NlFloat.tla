------------------------------- MODULE NlFloat -------------------------------
(***************************************************************************)
(* IEEE-754 binary64 values as bit fields, for the part of property C06    *)
(* that the exact dyadic domain of NlValues leaves out: comparisons of     *)
(* EVERY pair of floats (signed zeros, infinities, NaN, subnormals         *)
(* included) and the arithmetic of the special values.                     *)
(*                                                                         *)
(* A float is [s |-> 0|1, e |-> 0..2047, h |-> high 26 bits of the         *)
(* mantissa, l |-> low 26 bits].                                           *)
(*   e = 2047, mantissa # 0   NaN        e = 2047, mantissa = 0   infinity *)
(*   e = 0,    mantissa = 0   zero       e = 0, mantissa # 0     subnormal *)
(***************************************************************************)
EXTENDS Integers

IsNaN(x)  == x.e = 2047 /\ (x.h # 0 \/ x.l # 0)
IsInf(x)  == x.e = 2047 /\ x.h = 0 /\ x.l = 0
IsZero(x) == x.e = 0 /\ x.h = 0 /\ x.l = 0
IsFinite(x) == x.e # 2047

(* magnitude order of two non-NaN floats: -1, 0, 1 (the bit fields order like the magnitudes) *)
MagCmp(a, b) ==
  IF a.e # b.e THEN (IF a.e < b.e THEN -1 ELSE 1)
  ELSE IF a.h # b.h THEN (IF a.h < b.h THEN -1 ELSE 1)
  ELSE IF a.l # b.l THEN (IF a.l < b.l THEN -1 ELSE 1)
  ELSE 0

(* numeric order of two non-NaN floats; the two zeros are equal *)
Cmp(a, b) ==
  IF IsZero(a) /\ IsZero(b) THEN 0
  ELSE IF a.s # b.s THEN (IF a.s = 1 THEN -1 ELSE 1)
  ELSE IF a.s = 0 THEN MagCmp(a, b) ELSE -MagCmp(a, b)

(* the six comparisons; every comparison with a NaN is false, except != *)
Compare(op, a, b) ==
  IF IsNaN(a) \/ IsNaN(b) THEN op = "!="
  ELSE LET c == Cmp(a, b) IN
       CASE op = "<" -> c < 0 [] op = "<=" -> c <= 0 [] op = ">" -> c > 0
         [] op = ">=" -> c >= 0 [] op = "==" -> c = 0 [] op = "!=" -> c # 0

(***************************************************************************)
(* Arithmetic where a special value decides the result.  Classes:          *)
(* "nan", "inf+", "inf-", "zero+", "zero-", or "finite" (undecided here:   *)
(* the exact dyadic cases are NlValues', the rest needs rounding).         *)
(***************************************************************************)
Class(x) == IF IsNaN(x) THEN "nan"
            ELSE IF IsInf(x) THEN (IF x.s = 0 THEN "inf+" ELSE "inf-")
            ELSE IF IsZero(x) THEN (IF x.s = 0 THEN "zero+" ELSE "zero-")
            ELSE "finite"

Sx(a, b) == IF a.s = b.s THEN 0 ELSE 1                 \* sign of a product / quotient
SignedInf(s) == IF s = 0 THEN "inf+" ELSE "inf-"
SignedZero(s) == IF s = 0 THEN "zero+" ELSE "zero-"

(* the class the result must have, or "any" when no special value decides it *)
ArithClass(op, a, b) ==
  IF IsNaN(a) \/ IsNaN(b) THEN "nan"
  ELSE CASE op = "+" ->
              IF IsInf(a) /\ IsInf(b) THEN (IF a.s = b.s THEN SignedInf(a.s) ELSE "nan")
              ELSE IF IsInf(a) THEN SignedInf(a.s) ELSE IF IsInf(b) THEN SignedInf(b.s)
              ELSE IF IsZero(a) /\ IsZero(b) THEN (IF a.s = 1 /\ b.s = 1 THEN "zero-" ELSE "zero+")
              ELSE "any"
         [] op = "-" ->
              IF IsInf(a) /\ IsInf(b) THEN (IF a.s # b.s THEN SignedInf(a.s) ELSE "nan")
              ELSE IF IsInf(a) THEN SignedInf(a.s) ELSE IF IsInf(b) THEN SignedInf(1 - b.s)
              ELSE IF IsZero(a) /\ IsZero(b) THEN (IF a.s = 1 /\ b.s = 0 THEN "zero-" ELSE "zero+")
              ELSE "any"
         [] op = "*" ->
              IF (IsInf(a) /\ IsZero(b)) \/ (IsZero(a) /\ IsInf(b)) THEN "nan"
              ELSE IF IsInf(a) \/ IsInf(b) THEN SignedInf(Sx(a, b))
              ELSE IF IsZero(a) \/ IsZero(b) THEN SignedZero(Sx(a, b))
              ELSE "any"
         [] op = "/" ->
              IF (IsInf(a) /\ IsInf(b)) \/ (IsZero(a) /\ IsZero(b)) THEN "nan"
              ELSE IF IsInf(a) THEN SignedInf(Sx(a, b))
              ELSE IF IsInf(b) THEN SignedZero(Sx(a, b))
              ELSE IF IsZero(b) THEN SignedInf(Sx(a, b))
              ELSE IF IsZero(a) THEN SignedZero(Sx(a, b))
              ELSE "any"
         [] op = "%" ->          \* the remainder has the sign of the dividend
              IF IsInf(a) \/ IsZero(b) THEN "nan"
              ELSE IF IsZero(a) THEN SignedZero(a.s)
              ELSE IF IsInf(b) THEN "same-as-a"
              ELSE "any"
=============================================================================
