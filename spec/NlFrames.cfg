INIT Init
NEXT Next
INVARIANT Report
INVARIANT FrameStackMirrors
CHECK_DEADLOCK FALSE
