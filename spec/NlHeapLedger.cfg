INIT Init
NEXT Next
INVARIANT Report
INVARIANT LedgerAgrees
CHECK_DEADLOCK FALSE
