------------------------------- MODULE TV_Enc -------------------------------
(***************************************************************************)
(* C15: binding of the encoding laws (NlEnc / NlEncApa) to the real        *)
(* constructors and accessors of `Object`.  The recorder calls             *)
(* Object::int / bool / null / function / float / string / array, reads    *)
(* the raw tagged word and every accessor back, and TLC checks each record *)
(* against the scheme -- 64-bit words are compared as limb numbers (NlBig).*)
(*                                                                         *)
(* Records (field k):                                                      *)
(*  int   v, word, dec            (numbers as [neg, mag]); tag, type, heap *)
(*  bool  v, word, dec; null word                                          *)
(*  fn    ip, nl, word, dec_ip, dec_nl                                     *)
(*  float bits, dec_bits (four 16-bit limbs), addr8 (address mod 8)        *)
(*  str   cp, dec_cp, addr8;   arr  val, dec (tree-unfolded), addr8        *)
(*  eq    x, y descriptors [kind, key], eq: what `==` answered             *)
(***************************************************************************)
EXTENDS NlBig, TLC, Json, IOUtils

Fl == INSTANCE NlFloat

Recs == ndJsonDeserialize(IOEnv.RECS)
VARIABLE pid
Init == pid \in 1..Len(Recs)
Next == UNCHANGED pid

B(x) == Mk(x.neg, x.mag)
Eight == Mk(FALSE, <<8>>)
TwoTo64 == Mul(TwoTo60, Mk(FALSE, <<16>>))
Small(n) == FromSmall(n)

(* the word of the signed payload p with tag t: (8 p + t) mod 2^64 *)
WordOf(p, t) == LET w == Add(Mul(p, Eight), Small(t)) IN IF w.neg THEN Add(w, TwoTo64) ELSE w

TagNum(ty) == CASE ty = "null" -> 0 [] ty = "int" -> 1 [] ty = "bool" -> 2 [] ty = "functie" -> 3
                [] ty = "float" -> 4 [] ty = "string" -> 5 [] ty = "array" -> 6

Good ==
  LET r == Recs[pid] IN
  CASE r.k = "int" ->
         /\ B(r.word) = WordOf(B(r.v), 1) /\ B(r.dec) = B(r.v)
         /\ r.type = "int" /\ ~r.heap /\ r.tag = 1
    [] r.k = "bool" ->
         /\ B(r.word) = Small(IF r.v THEN 10 ELSE 2) /\ r.dec = r.v /\ r.type = "bool" /\ ~r.heap
    [] r.k = "null" -> B(r.word) = Zero /\ r.type = "null" /\ ~r.heap
    [] r.k = "fn" ->
         /\ B(r.word) = WordOf(Add(Mul(B(r.ip), Small(65536)), Small(r.nl)), 3)
         /\ B(r.dec_ip) = B(r.ip) /\ r.dec_nl = r.nl /\ r.type = "functie" /\ ~r.heap
    [] r.k = "float" -> r.dec_bits = r.bits /\ r.addr8 = 0 /\ r.tag = 4 /\ r.type = "float" /\ r.heap
    [] r.k = "str" -> r.dec_cp = r.cp /\ r.addr8 = 0 /\ r.tag = 5 /\ r.type = "string" /\ r.heap
                      /\ r.dec_len = Len(r.cp)
    [] r.k = "arr" -> r.dec = r.val /\ r.addr8 = 0 /\ r.tag = 6 /\ r.type = "array" /\ r.heap
    [] r.k = "eq" ->
         \* values of different type or different content never compare equal, equal ones always do
         \* (NaN excepted: two floats are equal exactly when NlFloat's IEEE comparison of their bit fields says so)
         LET same == r.x.kind = r.y.kind /\
                     (IF r.x.kind = "float" THEN Fl!Compare("==", r.x.f, r.y.f) ELSE r.x.key = r.y.key)
         IN r.eq = same

Report ==
  PrintT(<<"VERDICT", ToJson([id |-> Recs[pid].id, class |-> IF Good THEN "agree" ELSE "mismatch",
                              rule |-> Recs[pid].k])>>)
=============================================================================
