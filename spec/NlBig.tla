------------------------------- MODULE NlBig -------------------------------
(***************************************************************************)
(* Exact signed integers beyond TLC's 32 bits, for property C06 (operators *)
(* are exact on the whole 61-bit range).                                   *)
(*                                                                         *)
(* A number is [neg |-> BOOLEAN, mag |-> limbs], limbs little-endian in    *)
(* base 10^4, no leading (most significant) zero limb; zero is             *)
(* [neg |-> FALSE, mag |-> <<>>].  Every intermediate value stays below    *)
(* 2^31: a limb product is < 10^8 and a column of a 5 x 5 limb product     *)
(* sums at most 5 of them plus a carry.                                    *)
(***************************************************************************)
EXTENDS Integers, Sequences

Base == 10000

Zero == [neg |-> FALSE, mag |-> <<>>]

RECURSIVE StripM(_)
StripM(m) == IF m # <<>> /\ m[Len(m)] = 0 THEN StripM(SubSeq(m, 1, Len(m) - 1)) ELSE m

Mk(neg, m) == LET s == StripM(m) IN [neg |-> (neg /\ s # <<>>), mag |-> s]

IsBig(x) == /\ \A i \in 1..Len(x.mag) : x.mag[i] >= 0 /\ x.mag[i] < Base
            /\ (x.mag = <<>> \/ x.mag[Len(x.mag)] # 0)
            /\ (x.mag = <<>> => ~x.neg)

Limb(m, i) == IF i <= Len(m) THEN m[i] ELSE 0

(* magnitude comparison: -1, 0, 1 *)
RECURSIVE CmpFrom(_, _, _)
CmpFrom(a, b, i) ==
  IF i = 0 THEN 0
  ELSE IF Limb(a, i) < Limb(b, i) THEN -1
  ELSE IF Limb(a, i) > Limb(b, i) THEN 1
  ELSE CmpFrom(a, b, i - 1)
CmpMag(a, b) ==
  IF Len(a) < Len(b) THEN -1 ELSE IF Len(a) > Len(b) THEN 1 ELSE CmpFrom(a, b, Len(a))

RECURSIVE AddFrom(_, _, _, _)
AddFrom(a, b, i, c) ==
  IF i > Len(a) /\ i > Len(b) THEN (IF c = 0 THEN <<>> ELSE <<c>>)
  ELSE LET s == Limb(a, i) + Limb(b, i) + c
       IN <<s % Base>> \o AddFrom(a, b, i + 1, s \div Base)
AddMag(a, b) == AddFrom(a, b, 1, 0)

(* a - b for magnitudes with a >= b *)
RECURSIVE SubFrom(_, _, _, _)
SubFrom(a, b, i, br) ==
  IF i > Len(a) THEN <<>>
  ELSE LET d == Limb(a, i) - Limb(b, i) - br
       IN IF d < 0 THEN <<d + Base>> \o SubFrom(a, b, i + 1, 1)
          ELSE <<d>> \o SubFrom(a, b, i + 1, 0)
SubMag(a, b) == StripM(SubFrom(a, b, 1, 0))

(* column k (1-based) of the schoolbook product: sum of a[i] * b[k+1-i] *)
RECURSIVE ColSum(_, _, _, _)
ColSum(a, b, k, i) ==
  IF i > Len(a) \/ i > k THEN 0
  ELSE (IF k + 1 - i <= Len(b) THEN a[i] * b[k + 1 - i] ELSE 0) + ColSum(a, b, k, i + 1)

RECURSIVE MulFrom(_, _, _, _)
MulFrom(a, b, k, c) ==
  IF k > Len(a) + Len(b) THEN (IF c = 0 THEN <<>> ELSE <<c>>)
  ELSE LET s == ColSum(a, b, k, 1) + c
       IN <<s % Base>> \o MulFrom(a, b, k + 1, s \div Base)
MulMag(a, b) == IF a = <<>> \/ b = <<>> THEN <<>> ELSE StripM(MulFrom(a, b, 1, 0))

Neg(x) == Mk(~x.neg, x.mag)

Cmp(x, y) ==
  IF x.neg /\ ~y.neg THEN -1
  ELSE IF ~x.neg /\ y.neg THEN 1
  ELSE IF x.neg THEN CmpMag(y.mag, x.mag) ELSE CmpMag(x.mag, y.mag)

Add(x, y) ==
  IF x.neg = y.neg THEN Mk(x.neg, AddMag(x.mag, y.mag))
  ELSE IF CmpMag(x.mag, y.mag) >= 0 THEN Mk(x.neg, SubMag(x.mag, y.mag))
  ELSE Mk(y.neg, SubMag(y.mag, x.mag))

Sub(x, y) == Add(x, Neg(y))

Mul(x, y) == Mk(x.neg # y.neg, MulMag(x.mag, y.mag))

(* q and r are THE quotient and remainder of a by b under truncating division *)
IsDivRem(a, b, q, r) ==
  /\ b.mag # <<>>
  /\ Add(Mul(q, b), r) = a
  /\ CmpMag(r.mag, b.mag) < 0
  /\ (r.mag = <<>> \/ r.neg = a.neg)

(* the 61-bit range [-2^60, 2^60 - 1];  2^60 = (2^15)^4 *)
P15 == Mk(FALSE, <<2768, 3>>)                      \* 32768
TwoTo60 == Mul(Mul(P15, P15), Mul(P15, P15))
MaxInt  == Sub(TwoTo60, [neg |-> FALSE, mag |-> <<1>>])
MinInt  == Neg(TwoTo60)
InRange(x) == Cmp(x, MinInt) >= 0 /\ Cmp(x, MaxInt) <= 0

RECURSIVE SmallLimbs(_)
SmallLimbs(v) == IF v = 0 THEN <<>> ELSE <<v % Base>> \o SmallLimbs(v \div Base)
FromSmall(n) == Mk(n < 0, SmallLimbs(IF n < 0 THEN -n ELSE n))
=============================================================================
