----------------------------- MODULE MC_Compile -----------------------------
(***************************************************************************)
(* Stage A of the design-level refinement check (M1):                      *)
(*      NlVM o NlCompiler  refines  NlSem   on every enumerated tree.      *)
(* For every record [id, nodes, root] this module compiles the tree with   *)
(* the specified compiler and prints the code -- encoded with the exported *)
(* opcode table into the byte format NlVM loads -- and the constant pool.  *)
(* No implementation output is read.  Stage B (MC_Refine) runs NlSem on    *)
(* the tree and NlVM on this code and compares the two results.            *)
(***************************************************************************)
EXTENDS NlCompiler, Json, IOUtils

Recs  == ndJsonDeserialize(IOEnv.RECS)
OpTab == ndJsonDeserialize(IOEnv.OPTAB)[1]

VARIABLE pid

Ops == {OpTab.ops[i] : i \in 1..Len(OpTab.ops)}
OpNamed(n) == CHOOSE o \in Ops : o.name = n

Bytes(v, w) == IF w = 1 THEN <<v>> ELSE <<v % 256, v \div 256>>
Enc(i) ==
  LET o == OpNamed(i.n)  w == o.widths
  IN <<o.byte>> \o (IF Len(w) >= 1 THEN Bytes(i.a, w[1]) ELSE <<>>) \o (IF Len(w) >= 2 THEN Bytes(i.b, w[2]) ELSE <<>>)

RECURSIVE EncAll(_, _)
EncAll(code, k) == IF k > Len(code) THEN <<>> ELSE Enc(code[k]) \o EncAll(code, k + 1)

Init == pid \in 1..Len(Recs)
Next == UNCHANGED pid

Report ==
  LET r == Recs[pid]
      c == Compile(r.nodes, r.root)
      ok == c.err = "" /\ JumpsResolved(c.code) /\ \A k \in 1..Len(c.code) : c.code[k].a >= 0 /\ c.code[k].a < 65536
  IN PrintT(<<"VEC", ToJson([id |-> r.id, err |-> c.err, wellformed |-> (c.err # "" \/ ok),
                             code |-> IF ok THEN EncAll(c.code, 1) ELSE <<>>,
                             consts |-> IF ok THEN c.consts ELSE <<>>])>>)
=============================================================================
