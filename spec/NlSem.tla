------------------------------- MODULE NlSem -------------------------------
(***************************************************************************)
(* The reference semantics of Nederlang: a definitional small-step         *)
(* evaluator over the syntax tree (DESIGN.md section 4).                   *)
(*                                                                         *)
(* It is deliberately NOT shaped like the implementation: no bytecode, no  *)
(* operand stack, no slots.  Control is a tree node or a value, the        *)
(* continuation is a stack of frames, variables live in one map per        *)
(* activation keyed by declaration, arrays and strings live in a heap that *)
(* only grows.  Every action is deterministic, so a record (a program and  *)
(* what the real interpreter did with it) has exactly one behaviour.       *)
(*                                                                         *)
(* Recs is a sequence of records [nodes, root, ...]; pid selects one.      *)
(* The machine state is the single record m:                               *)
(*   c     control: [md|->"I"] start, [md|->"E",n] evaluate expression n,    *)
(*         [md|->"S",n] execute statement n, [md|->"V",v] return value v to  *)
(*         the top frame, [md|->"X",sig,v] unwind (stop / volgende /        *)
(*         antwoord v), [md|->"H"] halted                                   *)
(*   k     continuation: sequence of frames, top = last                    *)
(*   acts  activations: sequence of maps declaration -> value; acts[1] is  *)
(*         the top-level program's                                         *)
(*   heap  sequence of cells (NlValues)                                    *)
(*   out   text printed so far (code points)                               *)
(*   n     steps taken                                                     *)
(*   res   the outcome once halted: V(value) | E(kinds) | DK(why)          *)
(*   vdef  whether the program's value is defined (last top-level          *)
(*         statement is an expression, U1)                                 *)
(*   lits, lits2, taint  bookkeeping for string-literal identity (U2)      *)
(***************************************************************************)
EXTENDS NlValues, NlStatic, NlRecs

VARIABLES m, sb

(* The input: one record per line of the file named by the environment variable RECS. *)

MaxSteps == 6000
MaxDepth == 260

N(n)   == Recs[pid].nodes[n]
Root   == Recs[pid].root
St     == sb      \* [bind, errs]: the result of NlStatic, computed once per record in Init

CE(n)  == [md |-> "E", n |-> n]
CS(n)  == [md |-> "S", n |-> n]
CV(v)  == [md |-> "V", v |-> v]
CX(s, v) == [md |-> "X", sig |-> s, v |-> v]
CH     == [md |-> "H"]

K      == m.k
Top    == m.k[Len(m.k)]
PopK   == SubSeq(m.k, 1, Len(m.k) - 1)
Repl(f) == [m.k EXCEPT ![Len(m.k)] = f]

BuiltinOf(cp) ==
  CASE cp = <<112,114,105,110,116>> -> "print"
    [] cp = <<116,121,112,101>> -> "type"
    [] cp = <<98,111,111,108>> -> "bool"
    [] cp = <<102,108,111,97,116>> -> "float"
    [] cp = <<105,110,116>> -> "int"
    [] cp = <<115,116,114,105,110,103>> -> "string"
    [] cp = <<108,101,110,103,116,101>> -> "lengte"

IsBuiltinCall(nd) == N(nd.f).k = "Ident" /\ N(nd.f).name \in BuiltinNames

(* does statement n give the enclosing block a value? (U1 at top level)    *)
RECURSIVE ValStmt(_)
ValStmt(n) ==
  \/ N(n).k = "Expr"
  \/ N(n).k = "Block" /\ (N(n).body = <<>> \/ ValStmt(N(n).body[Len(N(n).body)]))

(***************************************************************************)
(* Elementary state updates                                                *)
(***************************************************************************)
Go(c2, k2) ==
  /\ pid' = pid /\ sb' = sb
  /\ m' = IF m.n >= MaxSteps
          THEN [m EXCEPT !.c = CH, !.res = DK("budget")]
          ELSE [m EXCEPT !.c = c2, !.k = k2, !.n = @ + 1]

GoWith(c2, k2, upd) ==          \* upd: a record of further fields to replace
  /\ pid' = pid /\ sb' = sb
  /\ m' = IF m.n >= MaxSteps
          THEN [m EXCEPT !.c = CH, !.res = DK("budget")]
          ELSE [f \in DOMAIN m |->
                  IF f = "c" THEN c2 ELSE IF f = "k" THEN k2 ELSE IF f = "n" THEN m.n + 1
                  ELSE IF f \in DOMAIN upd THEN upd[f] ELSE m[f]]

Finish(r) == /\ pid' = pid /\ sb' = sb
             /\ m' = [m EXCEPT !.c = CH, !.res = r]

FinishWith(r, upd) ==
  /\ pid' = pid /\ sb' = sb
  /\ m' = [f \in DOMAIN m |->
             IF f = "c" THEN CH ELSE IF f = "res" THEN r
             ELSE IF f \in DOMAIN upd THEN upd[f] ELSE m[f]]

(* continue with a three-valued result *)
Ret3(r, k2) ==
  IF r.k = "V" THEN Go(CV(r.v), k2) ELSE Finish(r)

Ret3With(r, k2, upd) ==
  IF r.k = "V" THEN GoWith(CV(r.v), k2, upd) ELSE FinishWith(r, upd)

ExecBlock(ids, k2) ==
  IF ids = <<>> THEN Go(CV(Null), k2)
  ELSE Go(CS(ids[1]), Append(k2, [f |-> "Seq", ids |-> ids, i |-> 1]))

ActIdx(lvl) == IF lvl = "G" THEN 1 ELSE Len(m.acts)

ReadVar(b) ==
  LET a == m.acts[ActIdx(b.lvl)]
  IN IF b.risky THEN DK("U6")
     ELSE IF b.d \in DOMAIN a THEN V(a[b.d]) ELSE DK("U5")

WriteVar(b, v) == [m.acts EXCEPT ![ActIdx(b.lvl)] = (b.d :> v) @@ @]
UnsetVar(b) ==
  [m.acts EXCEPT ![ActIdx(b.lvl)] = [x \in (DOMAIN @) \ {b.d} |-> @[x]]]

(***************************************************************************)
(* Start                                                                   *)
(***************************************************************************)
Init ==
  /\ pid \in 1..Len(Recs)
  /\ sb = Resolve(Recs[pid].nodes, Recs[pid].root)
  /\ m = [c |-> [md |-> "I"], k |-> <<>>, acts |-> << EmptyBind >>, heap |-> <<>>,
          out |-> <<>>, n |-> 0, res |-> DK("running"), vdef |-> TRUE,
          lits |-> {}, lits2 |-> {}, taint |-> {}]

Start ==
  /\ m.c.md = "I"
  /\ IF St.errs # {} THEN Finish(E(St.errs))          \* rejected before anything runs
     ELSE IF Root = <<>> THEN Finish(V(Null))
     ELSE GoWith(CS(Root[1]), <<[f |-> "Top", i |-> 1]>>,
                 [vdef |-> ValStmt(Root[Len(Root)])])

(***************************************************************************)
(* Statements                                                              *)
(***************************************************************************)
SLet ==
  /\ m.c.md = "S" /\ N(m.c.n).k = "Let"
  /\ GoWith(CE(N(m.c.n).e), Append(K, [f |-> "Let", n |-> m.c.n]),
            [acts |-> UnsetVar(St.bind[m.c.n])])

SReturn ==
  /\ m.c.md = "S" /\ N(m.c.n).k = "Return"
  /\ Go(CE(N(m.c.n).e), Append(K, [f |-> "Ret"]))

SExpr ==
  /\ m.c.md = "S" /\ N(m.c.n).k = "Expr"
  /\ Go(CE(N(m.c.n).e), K)

SBlock ==
  /\ m.c.md = "S" /\ N(m.c.n).k = "Block"
  /\ ExecBlock(N(m.c.n).body, K)

SBreak ==
  /\ m.c.md = "S" /\ N(m.c.n).k = "Break"
  /\ Go(CX("brk", Null), K)

SContinue ==
  /\ m.c.md = "S" /\ N(m.c.n).k = "Continue"
  /\ Go(CX("cnt", Null), K)

(***************************************************************************)
(* Expressions                                                             *)
(***************************************************************************)
ELit ==
  /\ m.c.md = "E" /\ N(m.c.n).k \in {"Int", "Float", "Bool"}
  /\ LET nd == N(m.c.n) IN
     CASE nd.k = "Bool" -> Go(CV(BoolV(nd.v)), K)
       [] nd.k = "Int" -> IF "v" \in DOMAIN nd THEN Ret3(IntRes(nd.v), K)
                          ELSE Finish(DK("int-range"))
       [] nd.k = "Float" -> IF "m" \in DOMAIN nd THEN Ret3(FltRes(nd.m, nd.e), K)
                            ELSE Finish(DK("float-range"))

EStr ==
  /\ m.c.md = "E" /\ N(m.c.n).k = "Str"
  /\ LET s == N(m.c.n).cp IN
     IF s \in m.taint THEN Finish(DK("U2"))
     ELSE GoWith(CV(StrV(Len(m.heap) + 1)), K,
                 [heap |-> Append(m.heap, [k |-> "S", items |-> s, lit |-> 1]),
                  lits |-> m.lits \cup {s},
                  lits2 |-> IF s \in m.lits THEN m.lits2 \cup {s} ELSE m.lits2])

EIdent ==
  /\ m.c.md = "E" /\ N(m.c.n).k = "Ident"
  /\ Ret3(ReadVar(St.bind[m.c.n]), K)

EPrefix ==
  /\ m.c.md = "E" /\ N(m.c.n).k = "Prefix"
  /\ Go(CE(N(m.c.n).r), Append(K, [f |-> "Pre", op |-> N(m.c.n).op]))

EInfix ==
  /\ m.c.md = "E" /\ N(m.c.n).k = "Infix"
  /\ Go(CE(N(m.c.n).l), Append(K, [f |-> "InL", n |-> m.c.n]))

EIf ==
  /\ m.c.md = "E" /\ N(m.c.n).k = "If"
  /\ Go(CE(N(m.c.n).c), Append(K, [f |-> "IfC", n |-> m.c.n]))

EWhile ==
  /\ m.c.md = "E" /\ N(m.c.n).k = "While"
  /\ Go(CE(N(m.c.n).c), Append(K, [f |-> "WhC", n |-> m.c.n, lv |-> Null]))

EFunc ==
  /\ m.c.md = "E" /\ N(m.c.n).k = "Func"
  /\ IF N(m.c.n).name # <<>>
     THEN GoWith(CV(FnV(m.c.n)), K, [acts |-> WriteVar(St.bind[m.c.n], FnV(m.c.n))])
     ELSE Go(CV(FnV(m.c.n)), K)

ApplyBuiltin(nd, vals, k2) ==
  LET r == CallBuiltin(BuiltinOf(N(nd.f).name), vals, m.heap)
  IN Ret3With(r.r, k2, [heap |-> r.h, out |-> m.out \o r.out])

ECall ==
  /\ m.c.md = "E" /\ N(m.c.n).k = "Call"
  /\ LET nd == N(m.c.n) IN
     IF nd.args # <<>>
     THEN Go(CE(nd.args[1]), Append(K, [f |-> "Args", n |-> m.c.n, i |-> 1, vals |-> <<>>]))
     ELSE IF IsBuiltinCall(nd) THEN ApplyBuiltin(nd, <<>>, K)
     ELSE Go(CE(nd.f), Append(K, [f |-> "Callee", n |-> m.c.n, vals |-> <<>>]))

EAssign ==
  /\ m.c.md = "E" /\ N(m.c.n).k = "Assign"
  /\ LET nd == N(m.c.n)  l == N(nd.l) IN
     IF l.k = "Ident" THEN Go(CE(nd.r), Append(K, [f |-> "AsV", n |-> nd.l]))
     ELSE Go(CE(l.l), Append(K, [f |-> "AsI1", n |-> m.c.n]))

EArray ==
  /\ m.c.md = "E" /\ N(m.c.n).k = "Array"
  /\ LET nd == N(m.c.n) IN
     IF nd.vals = <<>>
     THEN GoWith(CV(ArrV(Len(m.heap) + 1)), K, [heap |-> Append(m.heap, ArrCell(<<>>))])
     ELSE Go(CE(nd.vals[1]), Append(K, [f |-> "Arr", n |-> m.c.n, i |-> 1, vals |-> <<>>]))

EIndex ==
  /\ m.c.md = "E" /\ N(m.c.n).k = "Index"
  /\ Go(CE(N(m.c.n).l), Append(K, [f |-> "IdxL", n |-> m.c.n]))

(***************************************************************************)
(* Returning a value to the top frame                                      *)
(***************************************************************************)
OnV(f) == m.c.md = "V" /\ Len(K) > 0 /\ Top.f = f

KTop ==
  /\ OnV("Top")
  /\ IF Top.i < Len(Root)
     THEN Go(CS(Root[Top.i + 1]), Repl([Top EXCEPT !.i = @ + 1]))
     ELSE Finish(V(m.c.v))

KSeq ==
  /\ OnV("Seq")
  /\ IF Top.i < Len(Top.ids)
     THEN Go(CS(Top.ids[Top.i + 1]), Repl([Top EXCEPT !.i = @ + 1]))
     ELSE Go(CV(IF ValStmt(Top.ids[Top.i]) THEN m.c.v ELSE Null), PopK)

KLet ==
  /\ OnV("Let")
  /\ GoWith(CV(Null), PopK, [acts |-> WriteVar(St.bind[Top.n], m.c.v)])

KRet ==
  /\ OnV("Ret")
  /\ Go(CX("ret", m.c.v), PopK)

KPre ==
  /\ OnV("Pre")
  /\ Ret3(UnOp(Top.op, m.c.v), PopK)

KInL ==
  /\ OnV("InL")
  /\ Go(CE(N(Top.n).r), Repl([f |-> "InR", n |-> Top.n, lv |-> m.c.v]))

KInR ==
  /\ OnV("InR")
  /\ Ret3(BinOp(N(Top.n).op, Top.lv, m.c.v, m.heap), PopK)

KIfC ==
  /\ OnV("IfC")
  /\ LET nd == N(Top.n) IN
     IF m.c.v.t # "B" THEN Finish(E({"Type"}))
     ELSE IF m.c.v.v THEN ExecBlock(nd.th, PopK)
     ELSE IF nd.hasel THEN ExecBlock(nd.el, PopK)
     ELSE Go(CV(Null), PopK)

KWhC ==
  /\ OnV("WhC")
  /\ IF m.c.v.t # "B" THEN Finish(E({"Type"}))
     ELSE IF m.c.v.v THEN ExecBlock(N(Top.n).body, Repl([f |-> "WhB", n |-> Top.n]))
     ELSE Go(CV(Top.lv), PopK)

KWhB ==
  /\ OnV("WhB")
  /\ Go(CE(N(Top.n).c), Repl([f |-> "WhC", n |-> Top.n, lv |-> m.c.v]))

KArgs ==
  /\ OnV("Args")
  /\ LET nd == N(Top.n)
         vals == Append(Top.vals, m.c.v)
     IN IF Top.i < Len(nd.args)
        THEN Go(CE(nd.args[Top.i + 1]), Repl([Top EXCEPT !.i = @ + 1, !.vals = vals]))
        ELSE IF IsBuiltinCall(nd) THEN ApplyBuiltin(nd, vals, PopK)
        ELSE Go(CE(nd.f), Repl([f |-> "Callee", n |-> Top.n, vals |-> vals]))

KCallee ==
  /\ OnV("Callee")
  /\ LET fv == m.c.v IN
     IF fv.t # "Fn" THEN Finish(E({"Type"}))
     ELSE LET fn == N(fv.d) IN
          IF Len(fn.params) # Len(Top.vals) THEN Finish(DK("U4"))
          ELSE IF Len(m.acts) >= MaxDepth THEN Finish(DK("depth"))
          ELSE LET act == [d \in {<<fv.d, j>> : j \in 1..Len(fn.params)} |-> Top.vals[d[2]]]
                   k2 == Repl([f |-> "CallB"])
               IN IF fn.body = <<>>
                  THEN Go(CV(Null), PopK)
                  ELSE GoWith(CS(fn.body[1]),
                              Append(k2, [f |-> "Seq", ids |-> fn.body, i |-> 1]),
                              [acts |-> Append(m.acts, act)])

KCallB ==
  /\ OnV("CallB")
  /\ GoWith(CV(m.c.v), PopK, [acts |-> SubSeq(m.acts, 1, Len(m.acts) - 1)])

KAsV ==
  /\ OnV("AsV")
  /\ GoWith(CV(m.c.v), PopK, [acts |-> WriteVar(St.bind[Top.n], m.c.v)])

KAsI1 ==
  /\ OnV("AsI1")
  /\ Go(CE(N(N(Top.n).l).i), Repl([f |-> "AsI2", n |-> Top.n, lv |-> m.c.v]))

KAsI2 ==
  /\ OnV("AsI2")
  /\ Go(CE(N(Top.n).r), Repl([f |-> "AsI3", lv |-> Top.lv, iv |-> m.c.v]))

KAsI3 ==
  /\ OnV("AsI3")
  /\ LET l == Top.lv  v == m.c.v
         r == IndexSet(l, Top.iv, v, m.heap)
         \* string identity (U2): writing into a text that came from a literal which has been
         \* evaluated more than once, or writing a text into itself
         litc == IF l.t = "S" /\ r.r.k = "V" /\ m.heap[l.r].lit = 1 THEN m.heap[l.r].items ELSE <<-1>>
     IN IF l.t = "S" /\ r.r.k = "V" /\ v.t = "S" /\ v.r = l.r THEN Finish(DK("U2"))
        ELSE IF litc # <<-1>> /\ litc \in m.lits2 THEN Finish(DK("U2"))
        ELSE IF litc # <<-1>>
             THEN Ret3With(r.r, PopK, [heap |-> [r.h EXCEPT ![l.r].lit = 0],
                                       taint |-> m.taint \cup {litc}])
             ELSE Ret3With(r.r, PopK, [heap |-> r.h])

KArr ==
  /\ OnV("Arr")
  /\ LET nd == N(Top.n)
         vals == Append(Top.vals, m.c.v)
     IN IF Top.i < Len(nd.vals)
        THEN Go(CE(nd.vals[Top.i + 1]), Repl([Top EXCEPT !.i = @ + 1, !.vals = vals]))
        ELSE GoWith(CV(ArrV(Len(m.heap) + 1)), PopK, [heap |-> Append(m.heap, ArrCell(vals))])

KIdxL ==
  /\ OnV("IdxL")
  /\ Go(CE(N(Top.n).i), Repl([f |-> "IdxI", lv |-> m.c.v]))

KIdxI ==
  /\ OnV("IdxI")
  /\ LET r == IndexGet(Top.lv, m.c.v, m.heap)
     IN Ret3With(r.r, PopK, [heap |-> r.h])

(***************************************************************************)
(* Unwinding: stop / volgende end at the innermost loop, antwoord at the   *)
(* innermost call.  NlStatic guarantees the target exists.                 *)
(***************************************************************************)
XStep ==
  /\ m.c.md = "X" /\ Len(K) > 0
  /\ LET s == m.c.sig IN
     IF s = "ret" /\ Top.f = "CallB"
     THEN GoWith(CV(m.c.v), PopK, [acts |-> SubSeq(m.acts, 1, Len(m.acts) - 1)])
     ELSE IF s = "brk" /\ Top.f \in {"WhB", "WhC"} THEN Go(CV(Null), PopK)
     ELSE IF s = "cnt" /\ Top.f \in {"WhB", "WhC"}
          THEN Go(CE(N(Top.n).c), Repl([f |-> "WhC", n |-> Top.n, lv |-> Null]))
     ELSE IF Top.f \in {"CallB", "Top"} THEN Finish(DK("unwind"))   \* excluded by NlStatic
     ELSE Go(m.c, PopK)

Next ==
  \/ Start
  \/ SLet \/ SReturn \/ SExpr \/ SBlock \/ SBreak \/ SContinue
  \/ ELit \/ EStr \/ EIdent \/ EPrefix \/ EInfix \/ EIf \/ EWhile \/ EFunc \/ ECall
  \/ EAssign \/ EArray \/ EIndex
  \/ KTop \/ KSeq \/ KLet \/ KRet \/ KPre \/ KInL \/ KInR \/ KIfC \/ KWhC \/ KWhB
  \/ KArgs \/ KCallee \/ KCallB \/ KAsV \/ KAsI1 \/ KAsI2 \/ KAsI3 \/ KArr \/ KIdxL \/ KIdxI
  \/ XStep

vars == <<pid, m, sb>>
Spec == Init /\ [][Next]_vars

Halted == m.c.md = "H"

(* sanity: the machine is never stuck before it halts *)
Progress == Halted \/ ENABLED Next
=============================================================================
