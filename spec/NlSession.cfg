INIT Init
NEXT Next
INVARIANT Report
INVARIANT NonEmpty
CHECK_DEADLOCK FALSE
