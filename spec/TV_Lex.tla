------------------------------- MODULE TV_Lex -------------------------------
(***************************************************************************)
(* C08: the real lexer's token stream, and the real parser's decoding of   *)
(* string literals, validated against NlLexer.  One state per record:      *)
(*   chars   the input characters with their class flags                   *)
(*   toks    the tokens the real lexer produced ([k, txt, e])              *)
(*   final   how far the real lexer read                                   *)
(*   parse_ok / parse_kind / strs  what the parser made of the text: was   *)
(*           it accepted, with which error kind not, and the decoded       *)
(*           contents of its string literals in source order               *)
(* Rules:                                                                  *)
(*   tokens   the streams agree token by token (kind, spelling, end)       *)
(*   dropped  the specification rejects the text (illegal character,       *)
(*            unterminated string) but the interpreter accepts it: part of *)
(*            the input was silently dropped                               *)
(*   consumed a legal text must be read to its end                         *)
(*   decode   every string literal denotes Decode(raw spelling)            *)
(***************************************************************************)
EXTENDS NlLexer, TLC, Json, IOUtils

Recs == ndJsonDeserialize(IOEnv.RECS)
VARIABLE pid
Init == pid \in 1..Len(Recs)
Next == UNCHANGED pid

Min2(a, b) == IF a < b THEN a ELSE b

Verdict ==
  LET r == Recs[pid]
      sp == Lex(r.chars)
      n == Len(sp.toks)
      \* the implementation reports an illegal character as a token of its own and goes on; compare up to there
      sameUpTo == \A i \in 1..Min2(n, Len(r.toks)) :
                     /\ r.toks[i].k = sp.toks[i].k
                     /\ r.toks[i].txt = sp.toks[i].txt
                     /\ r.toks[i].e = sp.toks[i].e
      strToks == SelectSeq(sp.toks, LAMBDA t : t.k = "String")
  IN IF r.crashed THEN "crash"
     ELSE IF ~sameUpTo \/ Len(r.toks) < n THEN "tokens"
     ELSE IF sp.err = 0 /\ Len(r.toks) # n THEN "tokens"
     ELSE IF sp.err = 0 /\ r.final # Len(r.chars) THEN "consumed"
     ELSE IF sp.err = 1 /\ r.parse_ok THEN "dropped"
     ELSE IF sp.err = 1 /\ r.parse_kind \notin {"Syntax", "Type"} THEN "errkind"
     ELSE IF sp.err = 0 /\ r.parse_ok /\ Len(r.strs) = Len(strToks)
             /\ \E i \in 1..Len(strToks) : r.strs[i] # Decode(strToks[i].txt, 1) THEN "decode"
     ELSE "ok"

Report ==
  PrintT(<<"VERDICT", ToJson([id |-> Recs[pid].id, class |-> IF Verdict = "ok" THEN "agree" ELSE "mismatch",
                              rule |-> Verdict])>>)

(* design-level law (M1): decoding inverts encoding, on all strings up to length 4 over the alphabet *)
Alphabet == {97, 34, 92, 110, 116, 123, 233, 10, 9}
RECURSIVE Strings(_)
Strings(n) == IF n = 0 THEN {<<>>} ELSE LET S == Strings(n - 1) IN S \cup {Append(s, c) : s \in S, c \in Alphabet}
ASSUME \A s \in Strings(3) : Decode(Encode(s, 1), 1) = s
=============================================================================
