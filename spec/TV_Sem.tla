------------------------------ MODULE TV_Sem ------------------------------
(***************************************************************************)
(* Validation of recorded executions of the real interpreter against the   *)
(* reference semantics NlSem (implementation -> specification, M3).        *)
(*                                                                         *)
(* Every record carries a program (syntax tree) and the observation made   *)
(* on the real `eval`: outcome class, value (tree-unfolded), error kind,   *)
(* printed text.  One initial state per record; the deterministic machine  *)
(* runs to its halt state, where the verdict for the record is printed.    *)
(* Verdicts are collected by the driver (vf); a mismatch is re-run there   *)
(* with Agree as an invariant to obtain the counterexample trace.          *)
(***************************************************************************)
EXTENDS NlSem

Obs == Recs[pid].obs

IsPrefixOf(a, b) == Len(a) <= Len(b) /\ \A i \in 1..Len(a) : a[i] = b[i]

UnfoldDepth == 5

(***************************************************************************)
(* The interactive prompt (src/bin/nederlang.rs), for records of session   *)
(* lines that were also fed to the real executable: between reading a line *)
(* and the next prompt it writes what the line printed, then the value of  *)
(* the line followed by a line feed - nothing for null - or, for a failed  *)
(* line, the error (its kind, then the message in parentheses).  `shown`   *)
(* is that text as recorded from the executable's two output streams;      *)
(* `shown_from` is how much of the program's output earlier lines wrote.   *)
(***************************************************************************)
ErrName(k) == CASE k = "Type" -> <<84, 121, 112, 101>>
                [] k = "Syntax" -> <<83, 121, 110, 116, 97, 120>>
                [] k = "Reference" -> <<82, 101, 102, 101, 114, 101, 110, 99, 101>>
                [] k = "Index" -> <<73, 110, 100, 101, 120>>
                [] k = "Argument" -> <<65, 114, 103, 117, 109, 101, 110, 116>>
                [] OTHER -> <<63>>
LineOut(o) == IF o.shown_from >= Len(m.out) THEN <<>> ELSE SubSeq(m.out, o.shown_from + 1, Len(m.out))
T_nullword == <<110, 117, 108, 108>>
Contains(t, w) == \E i \in 1..(Len(t) - Len(w) + 1) : SubSeq(t, i, i + Len(w) - 1) = w
PromptOK ==
  LET o == Obs   r == m.res IN
  IF "shown_missing" \in DOMAIN o THEN "prompt-died"
  ELSE IF "shown" \notin DOMAIN o THEN "ok"
  ELSE IF r.k = "V" THEN
       IF ~m.vdef THEN "ok"
       ELSE LET d == Display(r.v, m.heap, MaxDisplayDepth) IN
            IF ~d.ok THEN "ok"
            ELSE IF r.v.t = "N"            \* null: nothing, an empty line, or the word (how null is shown is the prompt's own affair)
                 THEN (IF o.shown \in {LineOut(o), LineOut(o) \o <<10>>, LineOut(o) \o T_nullword \o <<10>>} THEN "ok" ELSE "prompt")
                 ELSE (IF o.shown = LineOut(o) \o d.s \o <<10>> THEN "ok" ELSE "prompt")
  ELSE IF r.k = "E" THEN
       \* the line's output, then a report that names the error's kind (its wording is the prompt's own affair)
       LET lo == LineOut(o) IN
       IF IsPrefixOf(lo, o.shown) /\ Len(o.shown) > Len(lo) /\ o.shown[Len(o.shown)] = 10
          /\ Contains(SubSeq(o.shown, Len(lo) + 1, Len(o.shown)), ErrName(o.kind))
       THEN "ok" ELSE "prompt"
  ELSE "ok"

(* the verdict for the halted record: [class, rule] *)
Verdict ==
  LET o == Obs   r == m.res IN
  IF o.class \in {"Panic", "Abort", "Timeout", "Fault"}
       THEN [class |-> "mismatch", rule |-> "crash"]
  ELSE IF r.k = "DK" THEN
       IF r.why \in {"budget", "depth"} \/ o.class = "Budget"
       THEN [class |-> "skip", rule |-> r.why]
       ELSE IF IsPrefixOf(m.out, o.out)
            THEN [class |-> "skip", rule |-> r.why]
            ELSE [class |-> "mismatch", rule |-> "out-prefix"]
  ELSE IF o.class = "Budget" THEN [class |-> "mismatch", rule |-> "diverges"]
  ELSE IF r.k = "V" THEN
       IF o.class # "Value" THEN [class |-> "mismatch", rule |-> "class"]
       ELSE IF m.out # o.out THEN [class |-> "mismatch", rule |-> "out"]
       ELSE IF ~m.vdef THEN [class |-> "agree", rule |-> "U1"]
       ELSE IF ~UEq(Unfold(r.v, m.heap, UnfoldDepth), o.val) THEN [class |-> "mismatch", rule |-> "value"]
       ELSE IF PromptOK # "ok" THEN [class |-> "mismatch", rule |-> PromptOK]
       ELSE [class |-> "agree", rule |-> "value"]
  ELSE \* r.k = "E"
       IF o.class # "Err" THEN [class |-> "mismatch", rule |-> "class"]
       ELSE IF o.kind \notin r.s THEN [class |-> "mismatch", rule |-> "errkind"]
       ELSE IF m.out # o.out THEN [class |-> "mismatch", rule |-> "out"]
       ELSE IF PromptOK # "ok" THEN [class |-> "mismatch", rule |-> PromptOK]
       ELSE [class |-> "agree", rule |-> "error"]

SpecSummary ==
  IF m.res.k = "V" THEN [k |-> "V", v |-> Unfold(m.res.v, m.heap, UnfoldDepth), vdef |-> m.vdef]
  ELSE IF m.res.k = "E" THEN [k |-> "E", s |-> m.res.s]
  ELSE [k |-> "DK", why |-> m.res.why]

Report ==
  Halted => PrintT(<<"VERDICT", ToJson([id |-> Recs[pid].id, class |-> Verdict.class,
                                        rule |-> Verdict.rule, steps |-> m.n,
                                        spec |-> SpecSummary, out |-> m.out])>>)

(* used when a single record is re-run to obtain a counterexample trace *)
Agree == Halted => Verdict.class # "mismatch"
=============================================================================
