------------------------------ MODULE TV_Sem ------------------------------
(***************************************************************************)
(* Validation of recorded executions of the real interpreter against the   *)
(* reference semantics NlSem (implementation -> specification, M3).        *)
(*                                                                         *)
(* Every record carries a program (syntax tree) and the observation made   *)
(* on the real `eval`: outcome class, value (tree-unfolded), error kind,   *)
(* printed text.  One initial state per record; the deterministic machine  *)
(* runs to its halt state, where the verdict for the record is printed.    *)
(* Verdicts are collected by the driver (vf); a mismatch is re-run there   *)
(* with Agree as an invariant to obtain the counterexample trace.          *)
(***************************************************************************)
EXTENDS NlSem

Obs == Recs[pid].obs

IsPrefixOf(a, b) == Len(a) <= Len(b) /\ \A i \in 1..Len(a) : a[i] = b[i]

UnfoldDepth == 5

(* the verdict for the halted record: [class, rule] *)
Verdict ==
  LET o == Obs   r == m.res IN
  IF o.class \in {"Panic", "Abort", "Timeout", "Fault"}
       THEN [class |-> "mismatch", rule |-> "crash"]
  ELSE IF r.k = "DK" THEN
       IF r.why \in {"budget", "depth"} \/ o.class = "Budget"
       THEN [class |-> "skip", rule |-> r.why]
       ELSE IF IsPrefixOf(m.out, o.out)
            THEN [class |-> "skip", rule |-> r.why]
            ELSE [class |-> "mismatch", rule |-> "out-prefix"]
  ELSE IF o.class = "Budget" THEN [class |-> "mismatch", rule |-> "diverges"]
  ELSE IF r.k = "V" THEN
       IF o.class # "Value" THEN [class |-> "mismatch", rule |-> "class"]
       ELSE IF m.out # o.out THEN [class |-> "mismatch", rule |-> "out"]
       ELSE IF ~m.vdef THEN [class |-> "agree", rule |-> "U1"]
       ELSE IF UEq(Unfold(r.v, m.heap, UnfoldDepth), o.val)
            THEN [class |-> "agree", rule |-> "value"]
            ELSE [class |-> "mismatch", rule |-> "value"]
  ELSE \* r.k = "E"
       IF o.class # "Err" THEN [class |-> "mismatch", rule |-> "class"]
       ELSE IF o.kind \notin r.s THEN [class |-> "mismatch", rule |-> "errkind"]
       ELSE IF m.out # o.out THEN [class |-> "mismatch", rule |-> "out"]
       ELSE [class |-> "agree", rule |-> "error"]

SpecSummary ==
  IF m.res.k = "V" THEN [k |-> "V", v |-> Unfold(m.res.v, m.heap, UnfoldDepth), vdef |-> m.vdef]
  ELSE IF m.res.k = "E" THEN [k |-> "E", s |-> m.res.s]
  ELSE [k |-> "DK", why |-> m.res.why]

Report ==
  Halted => PrintT(<<"VERDICT", ToJson([id |-> Recs[pid].id, class |-> Verdict.class,
                                        rule |-> Verdict.rule, steps |-> m.n,
                                        spec |-> SpecSummary, out |-> m.out])>>)

(* used when a single record is re-run to obtain a counterexample trace *)
Agree == Halted => Verdict.class # "mismatch"
=============================================================================
