INIT Init
NEXT Next
CONSTANTS
  W = 11
  IPB = 5
  NLB = 2
