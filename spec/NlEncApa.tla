------------------------------ MODULE NlEncApa ------------------------------
(* The laws of NlEnc at the real word width W = 64, typed for Apalache: the values are      *)
(* symbolic, so the check covers all 2^61 integers and all 2^48 function descriptors.        *)
EXTENDS Integers

VARIABLES
  \* @type: Int;
  v,
  \* @type: Int;
  u,
  \* @type: Int;
  ip,
  \* @type: Int;
  nl,
  \* @type: Int;
  ip2,
  \* @type: Int;
  nl2,
  \* @type: Int;
  addr,
  \* @type: Int;
  tag

W64 == 18446744073709551616
HALF == 9223372036854775808
P60 == 1152921504606846976

Signed(w) == IF w >= HALF THEN w - W64 ELSE w
Tag(w) == w % 8
EncInt(x) == (8 * x + 1) % W64
FloorDiv8(x) == IF x >= 0 THEN x \div 8 ELSE -((-x + 7) \div 8)
DecInt(w) == FloorDiv8(Signed(w))
EncFn(i, n) == 8 * (i * 65536 + n) + 3
DecFnIp(w) == (FloorDiv8(Signed(w)) \div 65536) % 4294967296
DecFnNl(w) == FloorDiv8(Signed(w)) % 65536
EncPtr(a, t) == a + t

Init ==
  /\ v \in (-P60)..(P60 - 1) /\ u \in (-P60)..(P60 - 1)
  /\ ip \in 0..4294967295 /\ nl \in 0..65535
  /\ ip2 \in 0..4294967295 /\ nl2 \in 0..65535
  /\ addr \in 1..2305843009213693951       \* 8 * addr is a 64-bit address
  /\ tag \in 4..6

Next == UNCHANGED <<v, u, ip, nl, ip2, nl2, addr, tag>>

Laws ==
  /\ EncInt(v) >= 0 /\ EncInt(v) < W64
  /\ DecInt(EncInt(v)) = v
  /\ Tag(EncInt(v)) = 1
  /\ (v # u) => (EncInt(v) # EncInt(u))
  /\ (Signed(EncInt(v)) < Signed(EncInt(u))) <=> (v < u)
  /\ EncFn(ip, nl) < HALF
  /\ DecFnIp(EncFn(ip, nl)) = ip /\ DecFnNl(EncFn(ip, nl)) = nl
  /\ Tag(EncFn(ip, nl)) = 3
  /\ ((ip # ip2) \/ (nl # nl2)) => (EncFn(ip, nl) # EncFn(ip2, nl2))
  /\ EncInt(v) # EncFn(ip, nl) /\ EncInt(v) # 0 /\ EncInt(v) # 2 /\ EncInt(v) # 10
  /\ EncFn(ip, nl) # 0 /\ EncFn(ip, nl) # 2 /\ EncFn(ip, nl) # 10
  /\ Tag(EncPtr(8 * addr, tag)) = tag
  /\ EncPtr(8 * addr, tag) - (EncPtr(8 * addr, tag) % 8) = 8 * addr
  /\ EncPtr(8 * addr, tag) # EncInt(v) /\ EncPtr(8 * addr, tag) # EncFn(ip, nl)
=============================================================================
