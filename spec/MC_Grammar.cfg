INIT Init
NEXT Next
INVARIANT PrintVec
CHECK_DEADLOCK FALSE
