----------------------------- MODULE MC_Refine ------------------------------
(***************************************************************************)
(* Stage B of the design-level refinement check (M1, no implementation):   *)
(* for every record [id, nodes, root, bc] where bc is what NlCompiler      *)
(* produced for the tree (MC_Compile), the reference semantics NlSem is    *)
(* run on the tree and then the machine NlVM on the code; the two halt     *)
(* states must denote the same outcome:                                    *)
(*      both values     same printed output, same value (tree-unfolded)    *)
(*      both errors     same printed output, a common admissible kind      *)
(*      statically rejected by the compiler  <=>  NlSem reports a static   *)
(*                      error of that kind and no output                   *)
(* A DontKnow on either side (section 4.3, budget, exact-arithmetic        *)
(* domain) is a skip.  This is "translating a program to bytecode and      *)
(* running it on the stack machine never changes what the program means"   *)
(* (C01) as a theorem about the design, checked on every enumerated tree.  *)
(***************************************************************************)
EXTENDS TV_Sem, NlVM

Rejected == Recs[pid].bc.code = <<>>

RefInit == Init /\ VmInit

SemDone == Halted
VmDone == vm.halted \/ Rejected \/ (SemDone /\ m.res.k = "DK")     \* nothing to compare with: do not run the machine

RefNext ==
  IF ~SemDone THEN Next /\ UNCHANGED vm
  ELSE IF ~VmDone THEN VmNext /\ UNCHANGED <<m, sb>>
  ELSE UNCHANGED <<pid, m, sb, vm>>

Depth == 5

RefVerdict ==
  LET a == m.res  b == vm.res IN
  IF a.k = "DK" THEN [class |-> "skip", rule |-> a.why]
  ELSE IF Rejected THEN
       (IF a.k = "E" /\ Recs[pid].bc.err \in a.s /\ m.out = <<>> THEN [class |-> "agree", rule |-> "rejected"]
        ELSE [class |-> "mismatch", rule |-> "static"])
  ELSE IF b.k = "DK" THEN [class |-> "skip", rule |-> b.why]
  ELSE IF a.k = "V" /\ b.k = "V" THEN
       IF m.out # vm.out THEN [class |-> "mismatch", rule |-> "out"]
       ELSE IF ~m.vdef THEN [class |-> "agree", rule |-> "U1"]
       ELSE IF UEq(Unfold(a.v, m.heap, Depth), Unfold(b.v, vm.heap, Depth)) THEN [class |-> "agree", rule |-> "value"]
       ELSE [class |-> "mismatch", rule |-> "value"]
  ELSE IF a.k = "E" /\ b.k = "E" THEN
       IF m.out # vm.out THEN [class |-> "mismatch", rule |-> "out"]
       ELSE IF a.s \cap b.s = {} THEN [class |-> "mismatch", rule |-> "errkind"]
       ELSE [class |-> "agree", rule |-> "error"]
  ELSE [class |-> "mismatch", rule |-> "class"]

RefReport ==
  (SemDone /\ VmDone) =>
     PrintT(<<"VERDICT", ToJson([id |-> Recs[pid].id, class |-> RefVerdict.class, rule |-> RefVerdict.rule,
                                 sem_steps |-> m.n, vm_steps |-> vm.n])>>)
=============================================================================
