------------------------------- MODULE NlRecs -------------------------------
(***************************************************************************)
(* The record file every trace-validation module reads, and the index of   *)
(* the record a behaviour is about.  Shared by NlSem and NlVM so that one  *)
(* module (MC_Refine) can extend both: TLC evaluates a constant definition *)
(* of an EXTENDed module once, but re-evaluates it at every use when the   *)
(* module is INSTANCEd (the file would be re-read thousands of times).     *)
(***************************************************************************)
EXTENDS Json, IOUtils

Recs == ndJsonDeserialize(IOEnv.RECS)

VARIABLE pid
=============================================================================
