------------------------- MODULE MC_ParseRoundTrip -------------------------
(* M1 for C07: the specified parser inverts the specified printer on every tree of the    *)
(* enumerated families -- Parse(Unparse(t)) = t -- checked by TLC without any code.        *)
EXTENDS NlParser, IOUtils

VARIABLE t
Family == IF "FAMILY" \in DOMAIN IOEnv THEN IOEnv.FAMILY ELSE "pairs"
Trees == IF Family = "triples" THEN TripleTrees ELSE IF Family = "statements"
         \* (without the anonymous function: its empty name is "" in the families and <<>> in the parser)
         THEN {p \in StmtProgs : ~(p[1].k = "Let" /\ p[1].name = "g")} ELSE PairTrees \cup MixedTrees
Init == t \in Trees
Next == UNCHANGED t

Spell ==   \* token spelling -> token kind
  [s \in {"(", ")", "{", "}", "[", "]", ";", ",", "=", "!", "-", "+", "*", "/", "%", "<", "<=", ">", ">=", "==", "!=", "&&", "||",
          "als", "anders", "zolang", "functie", "stel", "antwoord", "stop", "volgende", "ja", "nee"} |->
    CASE s = "(" -> "OpenParen" [] s = ")" -> "CloseParen" [] s = "{" -> "OpenBrace" [] s = "}" -> "CloseBrace"
      [] s = "[" -> "OpenBracket" [] s = "]" -> "CloseBracket" [] s = ";" -> "Semi" [] s = "," -> "Comma"
      [] s = "=" -> "Assign" [] s = "!" -> "Bang" [] s = "-" -> "Minus" [] s = "+" -> "Plus" [] s = "*" -> "Star"
      [] s = "/" -> "Slash" [] s = "%" -> "Percent" [] s = "<" -> "Lt" [] s = "<=" -> "Lte" [] s = ">" -> "Gt"
      [] s = ">=" -> "Gte" [] s = "==" -> "Eq" [] s = "!=" -> "Neq" [] s = "&&" -> "And" [] s = "||" -> "Or"
      [] s = "als" -> "If" [] s = "anders" -> "Else" [] s = "zolang" -> "While" [] s = "functie" -> "Func"
      [] s = "stel" -> "Declare" [] s = "antwoord" -> "Return" [] s = "stop" -> "Break" [] s = "volgende" -> "Continue"
      [] s = "ja" -> "True" [] s = "nee" -> "False"]

(* the printed form (spellings with #id / #int markers) as a token sequence of the lexer's kinds *)
RECURSIVE ToToks(_, _)
ToToks(sp, i) ==
  IF i > Len(sp) THEN <<>>
  ELSE IF sp[i] = "#id" THEN <<[k |-> "Identifier", txt |-> sp[i + 1], e |-> 0]>> \o ToToks(sp, i + 2)
  ELSE IF sp[i] = "#int" THEN <<[k |-> "Int", txt |-> sp[i + 1], e |-> 0]>> \o ToToks(sp, i + 2)
  ELSE <<[k |-> Spell[sp[i]], txt |-> <<>>, e |-> 0]>> \o ToToks(sp, i + 1)

(* identifiers are TLA+ strings in the families and stay so through the parser: compare with TEq *)
Prog == IF Family = "statements" THEN t ELSE <<[k |-> "Expr", e |-> t]>>
RoundTrip == LET r == ParseTokens(ToToks(Unparse(Prog), 1)) IN r.ok /\ TEqSeq(r.t, Prog)
=============================================================================
