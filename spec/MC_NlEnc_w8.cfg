INIT Init
NEXT Next
CONSTANTS
  W = 8
  IPB = 2
  NLB = 2
